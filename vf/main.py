import argparse
import os
import subprocess
import sys

from . import core


def main():
    ap = argparse.ArgumentParser()
    ap.add_argument('prop', nargs='?')
    ap.add_argument('--tier', default=os.environ.get('VERIF_TIER') or 'quick', choices=['quick', 'thorough'])
    ap.add_argument('--only', nargs='*')
    ap.add_argument('--replay')
    ap.add_argument('--workers', type=int)
    a = ap.parse_args()
    if a.replay:
        sys.exit(subprocess.call([core.PY, a.replay]))
    try:
        import asyncssh  # noqa
    except Exception as e:
        print('HARNESS-ERROR: /repo does not import: %r' % (e,))
        sys.exit(3)
    try:
        rc = core.run_property(a.prop, a.tier, a.only, a.workers)
    except Exception:
        import traceback
        traceback.print_exc()
        print('HARNESS-ERROR: the check machinery itself failed (not a verdict about /repo)')
        rc = 3
    sys.exit(rc)


main()
