"""Engine B: a small symbolic interpreter from Python AST (read from /repo's
current source with inspect) to z3 terms with If-merged state (no path
forking).  Subset: assignments, augmented assignments, if/elif/else, raise,
return, assert, while (unrolled with an unwinding assertion), expression
statements that are recorded effects, int/bool/real arithmetic, comparisons,
min/max/len, and (in bit-vector mode) & | ^ ~ << >>.  Anything else raises
Unsupported, which the caller reports as *inconclusive*."""

import ast
import inspect
import textwrap
import time

import z3


class Unsupported(Exception):
    pass


def get_func_ast(fn):
    src = textwrap.dedent(inspect.getsource(fn))
    tree = ast.parse(src)
    node = tree.body[0]
    if not isinstance(node, (ast.FunctionDef, ast.AsyncFunctionDef)):
        raise Unsupported('not a function')
    return node


def strip_doc(body):
    if body and isinstance(body[0], ast.Expr) and isinstance(body[0].value, ast.Constant) \
            and isinstance(body[0].value.value, str):
        return body[1:]
    return body


class Tuple_:
    def __init__(self, items):
        self.items = items


class Opaque:
    """result of a stubbed call such as UInt32(x): keeps its arguments"""
    def __init__(self, name, args):
        self.name, self.args = name, args


class SymExec:
    def __init__(self, globals_=None, bv=0, hooks=None, calls=None, ignore_calls=(),
                 unroll=8, attr_types=None):
        self.globals = globals_ or {}
        self.bv = bv                     # 0 = mathematical ints; else bit width
        self.hooks = hooks or {}         # {unparsed stmt text: fn(self, guard)}
        self.calls = calls or {}         # {callee text: fn(self, args, guard)} -> value
        self.ignore_calls = tuple(ignore_calls)
        self.unroll = unroll
        self.env = {}                    # locals
        self.attrs = {}                  # self.<attr>
        self.effects = []                # (guard, name, args)
        self.raised = z3.BoolVal(False)  # some path raised
        self.raise_kind = []             # (guard, exception name)
        self.returned = z3.BoolVal(False)
        self.retval = None
        self.unwind_ok = z3.BoolVal(True)
        self.fresh = 0

    # -------------------------------------------------------------- values
    def const(self, v):
        if isinstance(v, bool):
            return z3.BoolVal(v)
        if isinstance(v, int):
            return z3.BitVecVal(v, self.bv) if self.bv else z3.IntVal(v)
        if isinstance(v, float):
            return z3.RealVal(v)
        if v is None:
            return None
        if isinstance(v, (bytes, str)):
            return v
        raise Unsupported('constant %r' % (v,))

    def truth(self, v):
        if v is None:
            return z3.BoolVal(False)
        if isinstance(v, bool):
            return z3.BoolVal(v)
        if isinstance(v, (bytes, str)):
            return z3.BoolVal(bool(v))
        if isinstance(v, Opaque):
            if v.name == 'bytes':
                return v.args[0] != 0
            return z3.BoolVal(True)
        if isinstance(v, Tuple_):
            return z3.BoolVal(bool(v.items))
        if z3.is_bool(v):
            return v
        if z3.is_bv(v):
            return v != z3.BitVecVal(0, v.size())
        if z3.is_int(v) or z3.is_real(v):
            return v != 0
        raise Unsupported('truth of %r' % (v,))

    def _num2(self, a, b):
        if z3.is_bool(a):
            a = z3.If(a, self.const(1), self.const(0))
        if z3.is_bool(b):
            b = z3.If(b, self.const(1), self.const(0))
        if z3.is_real(a) and z3.is_int(b):
            b = z3.ToReal(b)
        if z3.is_real(b) and z3.is_int(a):
            a = z3.ToReal(a)
        return a, b

    def merge(self, g, a, b):
        """If(g, a, b) for heterogeneous values"""
        if a is b:
            return a
        if a is None or b is None or isinstance(a, (Opaque, Tuple_, bytes, str)) or \
                isinstance(b, (Opaque, Tuple_, bytes, str)):
            if z3.is_true(z3.simplify(g)):
                return a
            if z3.is_false(z3.simplify(g)):
                return b
            if a is None and b is None:
                return None
            raise Unsupported('merge of non-numeric values')
        a, b = self._num2(a, b)
        return z3.If(g, a, b)

    # -------------------------------------------------------------- expressions
    def ev(self, e):
        if isinstance(e, ast.Constant):
            return self.const(e.value)
        if isinstance(e, ast.Name):
            if e.id in self.env:
                return self.env[e.id]
            if e.id in self.globals:
                return self.const(self.globals[e.id])
            if e.id in ('True', 'False'):
                return z3.BoolVal(e.id == 'True')
            raise Unsupported('name ' + e.id)
        if isinstance(e, ast.Attribute):
            if isinstance(e.value, ast.Name) and e.value.id == 'self':
                if e.attr in self.attrs:
                    return self.attrs[e.attr]
                raise Unsupported('self.' + e.attr)
            raise Unsupported('attribute ' + ast.unparse(e))
        if isinstance(e, ast.UnaryOp):
            v = self.ev(e.operand)
            if isinstance(e.op, ast.USub):
                return -v
            if isinstance(e.op, ast.Not):
                return z3.Not(self.truth(v))
            if isinstance(e.op, ast.Invert) and self.bv:
                return ~v
            raise Unsupported('unary ' + ast.dump(e.op))
        if isinstance(e, ast.BinOp):
            a, b = self._num2(self.ev(e.left), self.ev(e.right))
            op = type(e.op)
            if op is ast.Add:
                return a + b
            if op is ast.Sub:
                return a - b
            if op is ast.Mult:
                return a * b
            if op is ast.Div:
                if z3.is_int(a):
                    a = z3.ToReal(a)
                if z3.is_int(b):
                    b = z3.ToReal(b)
                return a / b
            if op is ast.FloorDiv:
                if self.bv:
                    return z3.UDiv(a, b)
                return a / b            # z3 Int division floors for positive divisors
            if op is ast.Mod:
                if self.bv:
                    return z3.URem(a, b)
                return a % b
            if self.bv:
                if op is ast.BitAnd:
                    return a & b
                if op is ast.BitOr:
                    return a | b
                if op is ast.BitXor:
                    return a ^ b
                if op is ast.LShift:
                    return a << b
                if op is ast.RShift:
                    return z3.LShR(a, b)
            raise Unsupported('binop ' + op.__name__)
        if isinstance(e, ast.Compare):
            left = self.ev(e.left)
            res = []
            for op, c in zip(e.ops, e.comparators):
                right = self.ev(c)
                res.append(self.cmp(type(op), left, right))
                left = right
            return res[0] if len(res) == 1 else z3.And(*res)
        if isinstance(e, ast.BoolOp):
            vals = [self.ev(v) for v in e.values]
            # value semantics of and/or only needed as truth here
            ts = [self.truth(v) for v in vals]
            return z3.And(*ts) if isinstance(e.op, ast.And) else z3.Or(*ts)
        if isinstance(e, ast.IfExp):
            return self.merge(self.truth(self.ev(e.test)), self.ev(e.body), self.ev(e.orelse))
        if isinstance(e, (ast.Tuple, ast.Set, ast.List)):
            return Tuple_([self.ev(x) for x in e.elts])
        if isinstance(e, ast.Call):
            return self.call(e)
        raise Unsupported('expr ' + ast.unparse(e))

    def cmp(self, op, a, b):
        if op in (ast.Is, ast.IsNot):
            if b is None:
                r = z3.BoolVal(a is None)
            else:
                raise Unsupported('is')
            return r if op is ast.Is else z3.Not(r)
        if op in (ast.In, ast.NotIn):
            if isinstance(b, Tuple_):
                r = z3.Or(*[self.cmp(ast.Eq, a, x) for x in b.items]) if b.items else z3.BoolVal(False)
                return r if op is ast.In else z3.Not(r)
            raise Unsupported('in')
        if isinstance(a, (bytes, str)) or isinstance(b, (bytes, str)):
            if isinstance(a, type(b)):
                return z3.BoolVal({ast.Eq: a == b, ast.NotEq: a != b}[op])
            raise Unsupported('compare str')
        a, b = self._num2(a, b)
        if self.bv and z3.is_bv(a):
            return {ast.Lt: z3.ULT(a, b), ast.LtE: z3.ULE(a, b), ast.Gt: z3.UGT(a, b),
                    ast.GtE: z3.UGE(a, b), ast.Eq: a == b, ast.NotEq: a != b}[op]
        return {ast.Lt: a < b, ast.LtE: a <= b, ast.Gt: a > b, ast.GtE: a >= b,
                ast.Eq: a == b, ast.NotEq: a != b}[op]

    def call(self, e, guard=None):
        name = ast.unparse(e.func)
        if name in self.calls:
            return self.calls[name](self, e, guard if guard is not None else z3.BoolVal(True))
        if name in ('min', 'max') and not e.keywords:
            vals = [self.ev(a) for a in e.args]
            r = vals[0]
            for v in vals[1:]:
                r, v = self._num2(r, v)
                if name == 'min':
                    r = z3.If(self.cmp(ast.LtE, r, v), r, v)
                else:
                    r = z3.If(self.cmp(ast.GtE, r, v), r, v)
            return r
        if name == 'bool':
            return self.truth(self.ev(e.args[0]))
        if name == 'len' and len(e.args) == 1:
            v = self.ev(e.args[0])
            if isinstance(v, Opaque) and v.name == 'bytes':
                return v.args[0]
            if isinstance(v, (bytes, str)):
                return self.const(len(v))
            if isinstance(v, Tuple_):
                return self.const(len(v.items))
            raise Unsupported('len of ' + ast.unparse(e.args[0]))
        if name == 'cast' and len(e.args) == 2:
            return self.ev(e.args[1])
        if name == 'int' and len(e.args) == 1:
            v = self.ev(e.args[0])
            if z3.is_int(v):
                return v
            if z3.is_bool(v):
                return z3.If(v, z3.IntVal(1), z3.IntVal(0))
            raise Unsupported('int() of real')
        raise Unsupported('call ' + name)

    def inline(self, fn, args, g, self_attrs_shared=True):
        """Interpret a call to another real function (method of the same
        object) in place: parameters bound positionally (after self)."""
        node = get_func_ast(fn)
        params = [a.arg for a in node.args.args if a.arg != 'self']
        defaults = node.args.defaults
        saved_env, saved_ret, saved_val = self.env, self.returned, self.retval
        self.env = {}
        for i, pn in enumerate(params):
            if i < len(args):
                self.env[pn] = args[i]
            else:
                d = defaults[i - (len(params) - len(defaults))]
                self.env[pn] = self.ev(d)
        self.returned, self.retval = z3.BoolVal(False), None
        self.run(strip_doc(node.body), g)
        val = self.retval
        self.env, self.returned, self.retval = saved_env, saved_ret, saved_val
        return val

    # -------------------------------------------------------------- statements
    def live(self, g):
        return z3.And(g, z3.Not(self.raised), z3.Not(self.returned))

    def assign(self, target, val, g):
        if isinstance(target, ast.Name):
            old = self.env.get(target.id)
            self.env[target.id] = val if old is None and not isinstance(val, type(None)) and \
                target.id not in self.env else self.merge(g, val, old)
        elif isinstance(target, ast.Attribute) and isinstance(target.value, ast.Name) \
                and target.value.id == 'self':
            old = self.attrs.get(target.attr)
            self.attrs[target.attr] = val if target.attr not in self.attrs else self.merge(g, val, old)
        elif isinstance(target, ast.Tuple) and isinstance(val, Tuple_):
            for t, v in zip(target.elts, val.items):
                self.assign(t, v, g)
        else:
            raise Unsupported('assign target ' + ast.unparse(target))

    def run(self, stmts, g=None):
        g = z3.BoolVal(True) if g is None else g
        for s in stmts:
            self.stmt(s, g)

    def stmt(self, s, g):
        g = self.live(g)
        text = ast.unparse(s)
        if text in self.hooks:
            self.hooks[text](self, g)
            return
        if isinstance(s, ast.Assign):
            val = self.ev(s.value)
            for t in s.targets:
                self.assign(t, val, g)
        elif isinstance(s, ast.AnnAssign):
            if s.value is not None:
                self.assign(s.target, self.ev(s.value), g)
        elif isinstance(s, ast.AugAssign):
            val = self.ev(ast.BinOp(left=_load(s.target), op=s.op, right=s.value))
            self.assign(s.target, val, g)
        elif isinstance(s, ast.If):
            c = self.truth(self.ev(s.test))
            gt = z3.simplify(z3.And(g, c))
            gf = z3.simplify(z3.And(g, z3.Not(c)))
            if not z3.is_false(gt):          # statically dead branches are not interpreted
                self.run(s.body, gt)
            if not z3.is_false(gf):
                self.run(s.orelse, gf)
        elif isinstance(s, ast.Raise):
            name = ast.unparse(s.exc.func) if isinstance(s.exc, ast.Call) else ast.unparse(s.exc) if s.exc else 'reraise'
            self.raise_kind.append((g, name))
            self.raised = z3.Or(self.raised, g)
        elif isinstance(s, ast.Return):
            v = self.ev(s.value) if s.value is not None else None
            if v is not None:
                self.retval = v if self.retval is None else self.merge(g, v, self.retval)
            self.returned = z3.Or(self.returned, g)
        elif isinstance(s, ast.Pass):
            pass
        elif isinstance(s, ast.Assert):
            pass                        # asserts in the source are not assumed
        elif isinstance(s, ast.Expr):
            if isinstance(s.value, ast.Constant):
                return
            if isinstance(s.value, ast.Call):
                name = ast.unparse(s.value.func)
                if name.startswith(self.ignore_calls) and self.ignore_calls:
                    return
                if name in self.calls:
                    self.calls[name](self, s.value, g)
                    return
            raise Unsupported('statement ' + text[:80])
        elif isinstance(s, ast.While):
            if s.orelse:
                raise Unsupported('while-else')
            for _ in range(self.unroll):
                c = self.truth(self.ev(s.test))
                self.run(s.body, z3.And(g, c))
            c = self.truth(self.ev(s.test))
            # unwinding assertion: after `unroll` iterations the loop must have exited
            self.unwind_ok = z3.And(self.unwind_ok, z3.Not(z3.And(self.live(g), c)))
        else:
            raise Unsupported('statement ' + type(s).__name__ + ': ' + text[:80])


def _load(t):
    t2 = ast.parse(ast.unparse(t), mode='eval').body
    return t2


class Q:
    """Query helper: counts queries/time; returns 'unsat'/'sat'/'unknown'"""

    def __init__(self, timeout_ms=60000):
        self.n = 0
        self.t = 0.0
        self.timeout_ms = timeout_ms

    def check(self, *assertions):
        s = z3.Solver()
        s.set('timeout', self.timeout_ms)
        for a in assertions:
            s.add(a)
        t0 = time.time()
        r = s.check()
        self.t += time.time() - t0
        self.n += 1
        return str(r), (s.model() if str(r) == 'sat' else None)


def mval(model, v, default=0):
    x = model.eval(v, model_completion=True)
    if z3.is_bool(x):
        return z3.is_true(x)
    try:
        return x.as_long()
    except Exception:
        return default
