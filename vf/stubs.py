"""Environment models shared by the property harnesses (DESIGN.md section 3).

Everything here replaces *environment* (event loop, transport, logger, options
object, crypto primitives); the asyncssh code under test is always the real
code imported from /repo."""

import asyncio
import types

from asyncssh.packet import SSHPacket

# SSHPacket.__bool__ returns a comparison on a possibly symbolic int; wrap it
# so that truthiness is a real bool under CrossHair (semantically identical).
_orig_bool = SSHPacket.__bool__
if not getattr(_orig_bool, '_vf', False):
    def _pkt_bool(self):
        return bool(_orig_bool(self))
    _pkt_bool._vf = True
    SSHPacket.__bool__ = _pkt_bool


class NullLogger:
    """logger whose methods do nothing"""

    def __getattr__(self, name):
        if name.startswith('__'):
            raise AttributeError(name)
        if name == 'get_child':
            return lambda *a, **k: self
        return lambda *a, **k: None


class FakeOptions:
    """Stands in for SSH*ConnectionOptions: every attribute has a harmless
    default; harnesses override what they need."""

    _defaults = dict(
        protocol_factory=None, waiter=None, tcp_keepalive=False,
        utf8_decode_errors='strict', version=b'AsyncSSH_verif',
        x509_trusted_certs=None, x509_trusted_cert_paths=(), x509_purposes=None,
        kex_algs=(), encryption_algs=(), mac_algs=(), compression_algs=(),
        signature_algs=(), host_based_auth=False, public_key_auth=False,
        kbdint_auth=False, password_auth=False, rekey_bytes=1 << 30,
        rekey_seconds=3600, keepalive_count_max=3, keepalive_interval=0,
        login_timeout=0, host='host', port=22, known_hosts=None,
        host_key_alias=None, server_host_keys_handler=None, username='user',
        password=None, client_keys=(), preferred_auth=(), disable_trivial_auth=False,
        agent_path=None, agent_identities=None, agent_forward_path=None,
        pkcs11_provider=None, pkcs11_pin=None, gss_host=None, gss_store=None,
        gss_delegate_creds=False, gss_kex=False, gss_auth=False,
        server_host_keys={}, all_server_host_keys={}, known_client_hosts=None,
        trust_client_host=False, authorized_client_keys=None, allow_pty=True,
        line_editor=False, line_echo=True, line_history=10, max_line_length=1024,
        rdns_lookup=False, x11_forwarding=False, x11_auth_path=None,
        agent_forwarding=True, process_factory=None, session_factory=None,
        encoding=None, errors='strict', sftp_factory=None, sftp_version=3,
        allow_scp=False, window=2097152, max_pktsize=32768, proxy_command=None,
        client_host_keysign=None, client_host_keypairs=(), client_host_pubkeys=(),
        client_host=None, client_username=None, server_factory=None,
        client_factory=None, config=None, keepalive_internal=0,
    )

    def __init__(self, **over):
        self.__dict__.update(self._defaults)
        self.__dict__.update(over)

    def __getattr__(self, name):
        if name.startswith('__'):
            raise AttributeError(name)
        return None


class RecTransport:
    """asyncio.Transport model: records what is written and how it ends"""

    def __init__(self):
        self.written = []
        self.closed = 0
        self.aborted = 0
        self.eof = 0
        self.paused = 0
        self.resumed = 0

    def write(self, data):
        self.written.append(bytes(data))

    def writelines(self, seq):
        for d in seq:
            self.write(d)

    def close(self):
        self.closed += 1

    def abort(self):
        self.aborted += 1

    def write_eof(self):
        self.eof += 1

    def can_write_eof(self):
        return True

    def is_closing(self):
        return bool(self.closed or self.aborted)

    def pause_reading(self):
        self.paused += 1

    def resume_reading(self):
        self.resumed += 1

    def get_extra_info(self, name, default=None):
        return default

    def get_write_buffer_size(self):
        return 0

    def set_write_buffer_limits(self, *a, **k):
        pass


# ------------------------------------------------------------------ MiniLoop

class MiniHandle:
    def __init__(self, cb, args, when=None):
        self.cb, self.args, self.when = cb, args, when
        self.cancelled_ = False

    def cancel(self):
        self.cancelled_ = True

    def cancelled(self):
        return self.cancelled_


class MiniFuture:
    """Pure-Python future with asyncio.Future's contract, bound to a MiniLoop"""

    _asyncio_future_blocking = False

    def __init__(self, loop):
        self._loop = loop
        self._state = 'PENDING'
        self._result = None
        self._exc = None
        self._cbs = []
        self._retrieved = False
        loop.futures.append(self)

    def get_loop(self):
        return self._loop

    def done(self):
        return self._state != 'PENDING'

    def cancelled(self):
        return self._state == 'CANCELLED'

    def cancel(self, msg=None):
        if self._state != 'PENDING':
            return False
        self._state = 'CANCELLED'
        self._schedule()
        return True

    def set_result(self, r):
        if self._state != 'PENDING':
            raise asyncio.InvalidStateError('invalid state')
        self._result = r
        self._state = 'FINISHED'
        self._schedule()

    def set_exception(self, e):
        if self._state != 'PENDING':
            raise asyncio.InvalidStateError('invalid state')
        if isinstance(e, type):
            e = e()
        self._exc = e
        self._state = 'FINISHED'
        self._schedule()

    def result(self):
        if self._state == 'CANCELLED':
            raise asyncio.CancelledError()
        if self._state != 'FINISHED':
            raise asyncio.InvalidStateError('Result is not ready.')
        self._retrieved = True
        if self._exc is not None:
            raise self._exc
        return self._result

    def exception(self):
        if self._state == 'CANCELLED':
            raise asyncio.CancelledError()
        if self._state != 'FINISHED':
            raise asyncio.InvalidStateError('Exception is not set.')
        self._retrieved = True
        return self._exc

    def add_done_callback(self, cb, context=None):
        if self._state != 'PENDING':
            self._loop.call_soon(cb, self)
        else:
            self._cbs.append(cb)

    def remove_done_callback(self, cb):
        n = len(self._cbs)
        self._cbs = [c for c in self._cbs if c != cb]
        return n - len(self._cbs)

    def _schedule(self):
        cbs, self._cbs = self._cbs, []
        for cb in cbs:
            self._loop.call_soon(cb, self)

    def __await__(self):
        if not self.done():
            self._asyncio_future_blocking = True
            yield self
        if not self.done():
            raise RuntimeError("await wasn't used with future")
        return self.result()

    __iter__ = __await__


class MiniTask(MiniFuture):
    """Drives a real coroutine; asyncio.Task's contract (cancel throws
    CancelledError into the coroutine at its next resume)."""

    def __init__(self, loop, coro):
        super().__init__(loop)
        self._coro = coro
        self._must_cancel = False
        self._waiting = None
        loop.tasks.append(self)
        loop.call_soon(self._step)

    def cancel(self, msg=None):
        if self.done():
            return False
        if self._waiting is not None:
            if self._waiting.cancel():
                return True
        self._must_cancel = True
        return True

    def _step(self, exc=None):
        if self.done():
            return
        if self._must_cancel:
            if not isinstance(exc, asyncio.CancelledError):
                exc = asyncio.CancelledError()
            self._must_cancel = False
        self._waiting = None
        self._loop.current = self
        try:
            if exc is None:
                res = self._coro.send(None)
            else:
                res = self._coro.throw(exc)
        except StopIteration as e:
            if self._must_cancel:
                self._must_cancel = False
                MiniFuture.cancel(self)
            else:
                MiniFuture.set_result(self, e.value)
        except asyncio.CancelledError:
            MiniFuture.cancel(self)
        except Exception as e:
            MiniFuture.set_exception(self, e)
        else:
            if res is None:
                self._loop.call_soon(self._step)
            elif getattr(res, '_asyncio_future_blocking', None) is not None:
                res._asyncio_future_blocking = False
                res.add_done_callback(self._wakeup)
                self._waiting = res
                if self._must_cancel and res.cancel():
                    self._must_cancel = False
            else:
                self._loop.call_soon(self._step, RuntimeError('bad yield'))
        finally:
            self._loop.current = None

    def _wakeup(self, fut):
        try:
            fut.result()
        except BaseException as e:
            if type(e).__module__.startswith('crosshair'):
                raise
            self._step(e)
        else:
            self._step()


class MiniLoop:
    """FIFO ready queue like asyncio's; timers are kept in a list and fired
    only when the harness says so (time is an environment input)."""

    def __init__(self):
        self.ready = []
        self.timers = []
        self.futures = []
        self.tasks = []
        self.steps = 0
        self.current = None
        self.exceptions = []
        self._time = 0.0

    def call_soon(self, cb, *args, context=None):
        h = MiniHandle(cb, args)
        self.ready.append(h)
        return h

    call_soon_threadsafe = call_soon

    def call_later(self, delay, cb, *args, context=None):
        h = MiniHandle(cb, args, self._time + delay)
        self.timers.append(h)
        return h

    def call_at(self, when, cb, *args, context=None):
        h = MiniHandle(cb, args, when)
        self.timers.append(h)
        return h

    def time(self):
        return self._time

    def create_future(self):
        return MiniFuture(self)

    def create_task(self, coro, name=None, context=None):
        return MiniTask(self, coro)

    def is_closed(self):
        return False

    def get_debug(self):
        return False

    def call_exception_handler(self, ctx):
        self.exceptions.append(ctx)

    def unretrieved(self):
        """futures/tasks that ended with an exception nobody looked at - what
        asyncio reports to the loop exception handler as 'never retrieved'"""
        return [f for f in self.futures if f._state == 'FINISHED' and f._exc is not None and not f._retrieved]

    def pending(self):
        return [f for f in self.futures if f._state == 'PENDING']

    def fire_timer(self, i=0):
        live = [h for h in self.timers if not h.cancelled_]
        if i < len(live):
            h = live[i]
            self.timers.remove(h)
            self.ready.append(h)
            return True
        return False

    def run(self, max_steps=1000):
        """Run ready callbacks FIFO until idle or max_steps; returns True if idle.
        An exception escaping a callback is recorded (asyncio would log it via
        the loop exception handler): harnesses assert on `exceptions`."""
        n = 0
        while self.ready and n < max_steps:
            h = self.ready.pop(0)
            n += 1
            self.steps += 1
            if h.cancelled_:
                continue
            try:
                h.cb(*h.args)
            except Exception as e:
                self.exceptions.append(e)
        return not self.ready


class AsyncioShim:
    """Replacement for the `asyncio` name inside an asyncssh module: task
    creation goes to the MiniLoop, everything else is the real asyncio."""

    def __init__(self, loop):
        self._loop = loop
        self.FIRST_COMPLETED = asyncio.FIRST_COMPLETED

    def ensure_future(self, coro, loop=None):
        if isinstance(coro, MiniFuture):
            return coro
        return self._loop.create_task(coro)

    def create_task(self, coro, name=None):
        return self._loop.create_task(coro)

    def get_event_loop(self):
        return self._loop

    get_running_loop = get_event_loop

    def Queue(self, maxsize=0):
        return MiniQueue(self._loop)

    def current_task(self, loop=None):
        return self._loop.current

    def __getattr__(self, name):
        return getattr(asyncio, name)


class MiniQueue:
    """asyncio.Queue contract on the MiniLoop (FIFO, unbounded)"""

    def __init__(self, loop):
        self._loop = loop
        self._items = []
        self._getters = []
        self._unfinished = 0
        self._joiners = []

    def qsize(self):
        return len(self._items)

    def put_nowait(self, item):
        self._items.append(item)
        self._unfinished += 1
        while self._getters:
            g = self._getters.pop(0)
            if not g.done():
                g.set_result(None)
                break

    async def get(self):
        while not self._items:
            f = self._loop.create_future()
            self._getters.append(f)
            await f
        return self._items.pop(0)

    def task_done(self):
        if self._unfinished <= 0:
            raise ValueError('task_done() called too many times')
        self._unfinished -= 1
        if self._unfinished == 0:
            for j in self._joiners:
                if not j.done():
                    j.set_result(None)
            self._joiners = []

    async def join(self):
        if self._unfinished > 0:
            f = self._loop.create_future()
            self._joiners.append(f)
            await f


class Suspend:
    """await Suspend() yields once to the loop (a validator that needs a
    round trip to a back end)"""

    def __await__(self):
        yield


def drive(coro):
    """Run a coroutine that is expected not to suspend; returns ('ret', v) or
    ('exc', e).  A suspension is reported as ('suspended', yielded)."""
    try:
        y = coro.send(None)
    except StopIteration as e:
        return ('ret', e.value)
    except Exception as e:
        return ('exc', e)
    coro.close()
    return ('suspended', y)


# ------------------------------------------------------------------ connections

def mkconn(server: bool, loop=None, **over):
    """Real SSHServerConnection/SSHClientConnection built by the real
    __init__ with FakeOptions; logger silenced; transport recording."""
    from asyncssh import connection as C
    loop = loop or MiniLoop()
    opts = FakeOptions(**{k: v for k, v in over.items() if not k.startswith('_')})
    cls = C.SSHServerConnection if server else C.SSHClientConnection
    conn = cls(loop, opts)
    conn._logger = NullLogger()
    conn._transport = RecTransport()
    conn._rekey_seconds = 0          # time-based rekey off unless a harness turns it on (the clock is then an explicit input)
    for k, v in over.items():
        if k.startswith('_'):
            setattr(conn, k, v)
    return conn


def chan_conn(loop=None):
    """Minimal connection object for channel harnesses: records sent packets"""
    loop = loop or MiniLoop()

    class Conn:
        def __init__(self):
            self.sent = []
            self.channels = {}
            self.next_chan = 0
            self.logger = NullLogger()
            self.removed = []
            self.tasks = []

        def get_next_recv_chan(self):
            n = self.next_chan
            self.next_chan += 1
            return n

        def add_channel(self, chan):
            n = self.get_next_recv_chan()
            self.channels[n] = chan
            return n

        def remove_channel(self, n):
            self.removed.append(n)
            self.channels.pop(n, None)

        def send_packet(self, pkttype, *args, handler=None):
            self.sent.append((pkttype, b''.join(args)))

        def send_channel_open_confirmation(self, *a, **k):
            self.sent.append(('open_confirm', a))

        def send_channel_open_failure(self, *a, **k):
            self.sent.append(('open_failure', a))

        def create_task(self, coro, task_logger=None):
            t = loop.create_task(coro)
            self.tasks.append(t)
            return t

        def is_client(self):
            return True

        def is_server(self):
            return False

        def get_extra_info(self, name, default=None):
            return default

        def get_key_option(self, name, default=None):
            return default

        def get_certificate_option(self, name, default=None):
            return default

        def __getattr__(self, name):
            if name.startswith('__'):
                raise AttributeError(name)
            raise AttributeError('Conn stub lacks ' + name)

    return Conn()
