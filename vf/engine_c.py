"""Engine C: Python `re` patterns -> z3 regular expressions (sequence theory),
for obligations that are statements about *languages* over unbounded strings.

Trusted reading of the re semantics used here: atomic groups are read as plain
groups, lazy quantifiers as greedy ones (same language), `$` as end-of-string
optionally followed by one newline, `.` excludes newline unless DOTALL.  Every
model string z3 returns is cross-checked against the real `re`/`fnmatch`."""

import re
import re._constants as sc
import re._parser as sp
import time

import z3

RS = z3.ReSort(z3.StringSort())
ANY = z3.AllChar(RS)
NL = z3.Re('\n')
NOT_NL = z3.Intersect(ANY, z3.Complement(NL))
STAR = z3.Star(ANY)
EMPTY = z3.Re('')


class Unsupported(Exception):
    pass


def _cat(parts):
    parts = [p for p in parts]
    if not parts:
        return EMPTY
    return parts[0] if len(parts) == 1 else z3.Concat(*parts)


def _union(parts):
    return parts[0] if len(parts) == 1 else z3.Union(*parts)


def _cls(items):
    alts, neg = [], False
    for op, av in items:
        if op is sc.NEGATE:
            neg = True
        elif op is sc.LITERAL:
            alts.append(z3.Re(chr(av)))
        elif op is sc.RANGE:
            alts.append(z3.Range(chr(av[0]), chr(av[1])))
        else:
            raise Unsupported('class item %r' % (op,))
    r = _union(alts)
    if neg:
        r = z3.Intersect(ANY, z3.Complement(r))
    return r


def to_z3(parsed, dotall=False):
    """language of *full matches* of the parsed pattern (no anchors inside)"""
    parts = []
    for op, av in parsed:
        if op is sc.LITERAL:
            parts.append(z3.Re(chr(av)))
        elif op is sc.NOT_LITERAL:
            parts.append(z3.Intersect(ANY, z3.Complement(z3.Re(chr(av)))))
        elif op is sc.ANY:
            parts.append(ANY if dotall else NOT_NL)
        elif op is sc.IN:
            parts.append(_cls(av))
        elif op in (sc.MAX_REPEAT, sc.MIN_REPEAT, getattr(sc, 'POSSESSIVE_REPEAT', None)):
            lo, hi, sub = av
            s = to_z3(sub, dotall)
            if hi is sc.MAXREPEAT:
                if lo == 0:
                    parts.append(z3.Star(s))
                elif lo == 1:
                    parts.append(z3.Plus(s))
                else:
                    parts.append(z3.Concat(z3.Loop(s, lo, lo), z3.Star(s)))
            else:
                parts.append(z3.Loop(s, lo, hi))
        elif op is sc.SUBPATTERN:
            parts.append(to_z3(av[3], dotall))
        elif op is sc.ATOMIC_GROUP:
            parts.append(to_z3(av, dotall))
        elif op is sc.BRANCH:
            parts.append(_union([to_z3(b, dotall) for b in av[1]]))
        else:
            raise Unsupported('regex op %r' % (op,))
    return _cat(parts)


def search_lang(pattern, flags=0):
    """language {s | re.search(pattern, s)} for patterns whose anchors occur
    only at the start/end of top-level alternatives"""
    if hasattr(pattern, 'pattern'):
        flags = pattern.flags
        pattern = pattern.pattern
    parsed = sp.parse(pattern, flags)
    dotall = bool(flags & re.S)
    items = list(parsed)
    alts = [list(b) for b in items[0][1][1]] if len(items) == 1 and items[0][0] is sc.BRANCH else [items]
    out = []
    for alt in alts:
        pre, suf = STAR, STAR
        if alt and alt[0][0] is sc.AT and alt[0][1] in (sc.AT_BEGINNING, sc.AT_BEGINNING_STRING):
            pre, alt = EMPTY, alt[1:]
        if alt and alt[-1][0] is sc.AT and alt[-1][1] is sc.AT_END:
            suf, alt = z3.Option(NL), alt[:-1]
        elif alt and alt[-1][0] is sc.AT and alt[-1][1] is sc.AT_END_STRING:
            suf, alt = EMPTY, alt[:-1]
        if any(op is sc.AT for op, _ in alt):
            raise Unsupported('anchor inside alternative')
        out.append(z3.Concat(pre, to_z3(alt, dotall), suf))
    return _union(out)


def fullmatch_lang(pattern, flags=0):
    """language of `re.fullmatch`; accepts fnmatch.translate() output"""
    m = re.fullmatch(r'\(\?s:(.*)\)\\Z', pattern, re.S)
    if m:
        return to_z3(sp.parse(m.group(1), re.S), True)
    return to_z3(sp.parse(pattern, flags), bool(flags & re.S))


class Q:
    def __init__(self, timeout_ms=20000):
        self.n = 0
        self.t = 0.0
        self.timeout_ms = timeout_ms

    def check(self, *assertions):
        s = z3.Solver()
        s.set('timeout', self.timeout_ms)
        for a in assertions:
            s.add(a)
        t0 = time.time()
        r = str(s.check())
        self.t += time.time() - t0
        self.n += 1
        return r, (s.model() if r == 'sat' else None)


def model_str(m, v):
    x = m.eval(v, model_completion=True)
    try:
        return x.as_string()
    except Exception:
        return str(x)


def unescape(s):
    """z3 prints non-ASCII / control characters as \\u{..}"""
    return re.sub(r'\\u\{([0-9a-fA-F]+)\}', lambda m: chr(int(m.group(1), 16)), s)
