"""Obligation model, CrossHair driver, replay, evidence and findings.

An obligation is a harness function `fn(**kwargs) -> bool` living in
props/Cxx.py.  Engine A lets CrossHair execute it on symbolic kwargs;
Engines B/C are solver routines that return candidate kwargs.  In both cases a
counterexample is only reported after `fn` returned False (or raised) when run
concretely in a fresh interpreter without CrossHair."""

import ast
import hashlib
import inspect
import itertools
import json
import os
import random
import re
import signal
import subprocess
import sys
import time
from concurrent.futures import ThreadPoolExecutor

ROOT = os.path.dirname(os.path.dirname(os.path.abspath(__file__)))
PY = os.path.join(ROOT, '.venv', 'bin', 'python')
# VF_SCRATCH relocates generated files (used only by tools/ when several trees are checked in parallel);
# VF_REPO (see ./check) points the interpreter at another checkout of asyncssh than /repo.
_SCRATCH = os.environ.get('VF_SCRATCH') or ROOT
REPO = os.environ.get('VF_REPO') or '/repo'
GEN = os.path.join(_SCRATCH, '.gen')
REPLAYS = os.path.join(_SCRATCH, 'replays')
EVIDENCE = os.path.join(_SCRATCH, 'evidence')
FINDINGS = os.path.join(ROOT, 'known_findings.jsonl')


# ---------------------------------------------------------------- specs

class R:
    """symbolic int in [lo, hi]"""
    def __init__(self, lo, hi):
        self.lo, self.hi = lo, hi
    typ = 'int'
    def pre(self, n):
        return ['%d <= %s <= %d' % (self.lo, n, self.hi)]
    def desc(self):
        return 'int[%d..%d]' % (self.lo, self.hi)


class Bool:
    typ = 'bool'
    def pre(self, n):
        return []
    def desc(self):
        return 'bool'


B = Bool()


class By:
    """symbolic bytes of fixed length n"""
    def __init__(self, n):
        self.n = n
    typ = 'bytes'
    def pre(self, n):
        return ['len(%s) == %d' % (n, self.n)]
    def desc(self):
        return 'bytes[len=%d]' % self.n


class St:
    """symbolic str of length <= n"""
    def __init__(self, n):
        self.n = n
    typ = 'str'
    def pre(self, n):
        return ['len(%s) <= %d' % (n, self.n)]
    def desc(self):
        return 'str[len<=%d]' % self.n


class Ob:
    """One obligation = harness function x symbolic parameter spec x shard grid"""

    def __init__(self, name, fn, sym=None, pre=(), shards=None, fixed=None,
                 timeout=60, tier='quick', finding=None, engine='A',
                 thorough_shards=None, thorough_sym=None, thorough_timeout=None,
                 functions=(), bounds='', solver=None, note='', raises=()):
        self.name = name
        self.fn = fn
        self.sym = dict(sym or {})
        self.pre = list(pre)
        self.shards = dict(shards or {})
        self.fixed = dict(fixed or {})
        self.timeout = timeout
        self.tier = tier                      # 'quick' (both tiers) | 'thorough'
        self.finding = finding                # known-finding key if a violation is one
        self.engine = engine                  # 'A' | 'B' | 'C' | 'S' (static/AST)
        self.thorough_shards = thorough_shards
        self.thorough_sym = thorough_sym
        self.thorough_timeout = thorough_timeout
        self.functions = list(functions)      # real functions exercised (objects or dotted names)
        self.bounds = bounds
        self.solver = solver                  # for B/C/S: callable(job) -> dict
        self.note = note
        self.raises = raises


class Job:
    def __init__(self, ob, shard, tier):
        self.ob = ob
        self.shard = shard
        self.tier = tier
        sym = dict(ob.sym)
        if tier == 'thorough' and ob.thorough_sym:
            sym.update(ob.thorough_sym)
        for k in shard:
            sym.pop(k, None)
        # a shard key 'L' gives the length of the symbolic bytes parameter ob.bytes_param
        self.call_shard = dict(shard)
        bp = getattr(ob, 'bytes_param', None)
        if bp and 'L' in shard:
            sym[bp] = By(shard['L'])
            self.call_shard.pop('L')
        self.sym = sym
        self.timeout = (ob.thorough_timeout if tier == 'thorough' and
                        ob.thorough_timeout else ob.timeout)
        tag = ','.join('%s=%r' % kv for kv in sorted(shard.items()))
        self.id = ob.name + ('[' + tag + ']' if tag else '')
        self.slug = re.sub(r'[^A-Za-z0-9_]+', '_', self.id).strip('_')
        self.status = None          # confirmed | violated | known | inconclusive
        self.reason = ''
        self.cex = None
        self.twin = None
        self.paths = 0
        self.completed = 0
        self.wall = 0.0
        self.queries = 0
        self.solver_s = 0.0
        self.replay_path = None
        self.extra = {}


def expand(ob, tier):
    shards = ob.shards
    if tier == 'thorough' and ob.thorough_shards is not None:
        shards = ob.thorough_shards
    keys = sorted(shards)
    jobs = []
    for combo in itertools.product(*[shards[k] for k in keys]):
        jobs.append(Job(ob, dict(zip(keys, combo)), tier))
    return jobs


# ---------------------------------------------------------------- wrapper generation

def _gen_wrapper(prop, job, native=False):
    ob = job.ob
    params = sorted(job.sym)
    sig = ', '.join('%s: %s' % (p, job.sym[p].typ) for p in params)
    pres = []
    for p in params:
        pres += job.sym[p].pre(p)
    for extra in ob.pre:
        names = {n.id for n in ast.walk(ast.parse(extra)) if isinstance(n, ast.Name)}
        conc = dict(ob.fixed)
        conc.update(job.call_shard)
        if names & set(conc):
            # substitute concrete shard values
            tree = ast.parse(extra, mode='eval')

            class Sub(ast.NodeTransformer):
                def visit_Name(self, node):
                    if node.id in conc:
                        return ast.copy_location(ast.Constant(conc[node.id]), node)
                    return node
            extra = ast.unparse(Sub().visit(tree))
        pres.append(extra)
    call_kw = ['%s=%s' % (p, p) for p in params]
    conc = dict(ob.fixed)
    conc.update(job.call_shard)
    for p in params:                     # a parameter made symbolic in this tier overrides its fixed value
        conc.pop(p, None)
    call_kw += ['%s=%r' % kv for kv in sorted(conc.items())]
    call = '_h(%s)' % ', '.join(call_kw)
    prep = ''
    if native:
        # native-path variant: every parameter is concretised by solver-driven forking (one path per value) and the
        # harness then runs on the plain interpreter - for code that uses builtins CrossHair's models do not support
        for p_ in params:
            sp = job.sym[p_]
            if isinstance(sp, R):
                prep += '    %s = _rt.conc(%s, %d, %d)\n' % (p_, p_, sp.lo, sp.hi)
            else:
                prep += '    %s = _rt.cb(%s)\n' % (p_, p_)
        call = '_rt.run_native(_h, dict(%s))' % ', '.join(call_kw)
    doc = ''.join('    pre: %s\n' % p for p in pres)
    if ob.raises:
        doc += '    raises: %s\n' % ', '.join(ob.raises)
    src = '''import sys
sys.path.insert(0, %(root)r)
import vf.rt as _rt
from %(mod)s import %(fn)s as _h


def main(%(sig)s) -> bool:
    """
%(doc)s    post: _
    """
%(prep)s    _rt.started()
    r = %(call)s
    _rt.completed()
    return r


def twin(%(sig)s) -> bool:
    """
%(doc)s    post: _
    """
%(prep)s    %(call)s
    return False
''' % dict(root=ROOT, mod=ob.fn.__module__, fn=ob.fn.__name__, sig=sig, doc=doc, call=call, prep=prep)
    d = os.path.join(GEN, prop)
    os.makedirs(d, exist_ok=True)
    path = os.path.join(d, job.slug + ('_native' if native else '') + '.py')
    with open(path, 'w') as f:
        f.write(src)
    lines = src.split('\n')
    main_line = next(i for i, l in enumerate(lines) if l.startswith('def main')) + 1
    twin_line = next(i for i, l in enumerate(lines) if l.startswith('def twin')) + 1
    return path, main_line, twin_line


# ---------------------------------------------------------------- CrossHair driver

_MSG = re.compile(r'^(?P<file>[^:]+):(?P<line>\d+): (?P<kind>error|info): (?P<msg>.*)$')


def _run(cmd, timeout, env=None):
    """Run cmd in its own process group; SIGKILL the group at the cap"""
    t0 = time.time()
    p = subprocess.Popen(cmd, stdout=subprocess.PIPE, stderr=subprocess.PIPE,
                         env=env, start_new_session=True, cwd=ROOT)
    try:
        out, err = p.communicate(timeout=timeout)
        killed = False
    except subprocess.TimeoutExpired:
        try:
            os.killpg(p.pid, signal.SIGKILL)
        except ProcessLookupError:
            pass
        out, err = p.communicate()
        killed = True
    return p.returncode, out.decode('utf-8', 'replace'), err.decode('utf-8', 'replace'), killed, time.time() - t0


def _parse_call(msg, params):
    """'... when calling main(a=1, b=b"x")' -> kwargs"""
    m = re.search(r'when calling (main|twin)\(', msg)
    if not m:
        return None
    # find the matching close paren of the call
    depth, i, instr = 1, m.end(), None
    while i < len(msg) and depth:
        c = msg[i]
        if instr:
            if c == '\\':
                i += 1
            elif c == instr:
                instr = None
        elif c in '\'"':
            instr = c
        elif c in '([{':
            depth += 1
        elif c in ')]}':
            depth -= 1
        i += 1
    if depth:
        return None
    try:
        call = ast.parse('f(' + msg[m.end():i - 1] + ')', mode='eval').body
        kw = {}
        for i, a in enumerate(call.args):
            kw[params[i]] = ast.literal_eval(a)
        for k in call.keywords:
            kw[k.arg] = ast.literal_eval(k.value)
        return kw
    except Exception:
        return None


def run_crosshair(prop, job, native=False):
    path, main_line, twin_line = _gen_wrapper(prop, job, native)
    stats = path[:-3] + '.stats'
    if os.path.exists(stats):
        os.unlink(stats)
    env = dict(os.environ)
    env['VF_STATS'] = stats
    env['PYTHONHASHSEED'] = '0'
    env.pop('VF_REPLAY', None)
    params = sorted(job.sym)
    T = job.timeout
    # one CrossHair process checks both `main` (the obligation) and `twin`
    # (reachability witness: must be violated)
    cmd = [PY, '-m', 'crosshair', 'check', '--report_all',
           '--unblock', 'open:' + stats, 'socket.getaddrinfo',
           '--per_condition_timeout', str(T),
           '--per_path_timeout', str(max(10, T // 4)),
           path]
    rc, out, err, killed, wall = _run(cmd, T * 2.5 + 90, env)
    job.wall += wall
    try:
        with open(stats) as f:
            st = json.load(f)
        job.paths, job.completed = st['started'], st['completed']
    except Exception:
        pass
    twin_kw = None
    main_lines = []
    for line in out.splitlines():
        m = _MSG.match(line)
        if not m:
            continue
        if int(m.group('line')) >= twin_line:
            if m.group('kind') == 'error':
                kw = _parse_call(m.group('msg'), params)
                if kw is None and 'when calling' in m.group('msg'):
                    kw = {}
                if m.group('msg').startswith('false when'):
                    twin_kw = kw
                else:
                    job.extra['twin_msg'] = m.group('msg')[:300]
                    if twin_kw is None:
                        twin_kw = kw
        else:
            main_lines.append(line)
    out = '\n'.join(main_lines)
    job.extra['crosshair_cmd'] = ' '.join(cmd[1:])
    job.twin = twin_kw
    if killed:
        job.status = 'inconclusive'
        job.reason = 'killed at wall cap'
        return job
    verdict = None
    for line in out.splitlines():
        m = _MSG.match(line)
        if not m:
            continue
        msg = m.group('msg')
        if m.group('kind') == 'error':
            kw = _parse_call(msg, params)
            verdict = ('cex', kw, msg)
            break
        if 'Confirmed over all paths' in msg:
            verdict = ('confirmed',)
        elif 'Not confirmed' in msg:
            verdict = ('unknown', 'Not confirmed within %ds' % T)
        elif 'Unable to meet precondition' in msg:
            verdict = ('unknown', 'Unable to meet precondition')
    if verdict is None:
        job.status = 'inconclusive'
        job.reason = 'no verdict (rc=%s): %s' % (rc, (out + err).strip()[-400:])
    elif verdict[0] == 'confirmed':
        if twin_kw is None:
            job.status = 'inconclusive'
            job.reason = 'reachability twin not violated (vacuous or unreachable)'
        else:
            job.status = 'confirmed'
    elif verdict[0] == 'unknown':
        job.status = 'inconclusive'
        job.reason = verdict[1]
    else:
        kw, msg = verdict[1], verdict[2]
        if kw is None:
            job.status = 'inconclusive'
            job.reason = 'counterexample not parseable: ' + msg[:300]
        else:
            _replay_and_classify(prop, job, kw, msg)
            if job.status == 'inconclusive' and not native and _native_domain(job) is not None:
                # CrossHair's model of some builtin disagrees with the interpreter: decide the same bounded domain on
                # solver-enumerated paths that run natively
                job.extra['first_attempt'] = job.reason[:300]
                job.cex = None
                job.reason = ''
                run_crosshair(prop, job, native=True)
                job.extra['native_paths'] = True
    return job


def _native_domain(job, cap=6000):
    """size of the parameter domain if every symbolic parameter is a bounded int or a bool and the product is small"""
    n = 1
    for sp in job.sym.values():
        if isinstance(sp, R):
            n *= sp.hi - sp.lo + 1
        elif isinstance(sp, Bool):
            n *= 2
        else:
            return None
    return n if n <= cap else None


# ---------------------------------------------------------------- replay

REPLAY_TMPL = '''#!/usr/bin/env python3
# Replay of a counterexample for %(prop)s obligation %(job)s
# Runs the harness function concretely against /repo (no CrossHair).
# exit 1 + "REPRODUCED" if the property is violated, exit 0 otherwise.
import os, sys
os.environ['VF_REPLAY'] = '1'
sys.path.insert(0, %(root)r)
sys.path.insert(0, os.environ.get('VF_REPO') or '/repo')
KW = %(kw)r
from %(mod)s import %(fn)s as h
from vf.rt import AssumptionFailed
try:
    r = h(**KW)
except AssumptionFailed:
    print('NOT-REPRODUCED (assumption false)'); sys.exit(0)
except BaseException as e:
    print('REPRODUCED: raised %%s: %%s' %% (type(e).__name__, e)); sys.exit(1)
if r:
    print('NOT-REPRODUCED'); sys.exit(0)
print('REPRODUCED: harness %(fn)s(**%%r) returned False' %% (KW,)); sys.exit(1)
'''


def write_replay(prop, job, kw):
    os.makedirs(REPLAYS, exist_ok=True)
    full = dict(job.ob.fixed)
    full.update(job.call_shard)
    full.update(kw)
    h = hashlib.sha1(repr(sorted(full.items())).encode()).hexdigest()[:8]
    path = os.path.join(REPLAYS, '%s_%s_%s.py' % (prop, job.slug[:60], h))
    with open(path, 'w') as f:
        f.write(REPLAY_TMPL % dict(prop=prop, job=job.id, root=ROOT, kw=full, mod=job.ob.fn.__module__,
                                   fn=job.ob.fn.__name__))
    return path, full


def run_replay(path):
    env = dict(os.environ)
    env['VF_REPLAY'] = '1'
    rc, out, err, killed, wall = _run([PY, path], 120, env)
    if killed:
        # a replay that does not terminate: treat as reproduced only if the
        # harness had no fuel guard; report as such
        return True, 'replay did not terminate within 120 s'
    return rc == 1 and 'REPRODUCED' in out, (out.strip().splitlines() or [''])[-1][:400]


def _replay_and_classify(prop, job, kw, msg):
    path, full = write_replay(prop, job, kw)
    ok, text = run_replay(path)
    job.cex = {'kwargs': _jsonable(full), 'engine_msg': msg[:300], 'replay': text}
    if ok:
        job.status = 'violated'
        job.replay_path = path
    else:
        job.status = 'inconclusive'
        job.reason = 'engine counterexample did not reproduce on the real code (artefact): ' + msg[:200]
        try:
            os.unlink(path)
        except OSError:
            pass


def _jsonable_keep(x):
    """JSON encoding that can be inverted by _unjson (bytes kept)"""
    if isinstance(x, dict):
        return {str(k): _jsonable_keep(v) for k, v in x.items()}
    if isinstance(x, (list, tuple)):
        return [_jsonable_keep(v) for v in x]
    if isinstance(x, bytes):
        return {'@bytes': x.hex()}
    if isinstance(x, (int, float, str, bool)) or x is None:
        return x
    return repr(x)


def _unjson(x):
    if isinstance(x, dict):
        if set(x) == {'@bytes'}:
            return bytes.fromhex(x['@bytes'])
        return {k: _unjson(v) for k, v in x.items()}
    if isinstance(x, list):
        return [_unjson(v) for v in x]
    return x


def _jsonable(x):
    if isinstance(x, dict):
        return {str(k): _jsonable(v) for k, v in x.items()}
    if isinstance(x, (list, tuple, set, frozenset)):
        return [_jsonable(v) for v in x]
    if isinstance(x, bytes):
        return 'hex:' + x.hex()
    if isinstance(x, (int, float, str, bool)) or x is None:
        return x
    return repr(x)


# ---------------------------------------------------------------- solver-engine jobs

def run_solver(prop, job):
    """Engines B/C/S: ob.solver(job) returns
       {'status': 'confirmed'|'cex'|'inconclusive', 'kwargs': {...}, 'queries': n,
        'solver_s': s, 'reason': str, 'sample': ...}"""
    t0 = time.time()
    cap = job.timeout * 1.5 + 60
    env = dict(os.environ)
    env['VF_REPLAY'] = '1'
    rc, out, err, killed, wall = _run([PY, '-m', 'vf.solvjob', prop, job.ob.name,
                                       json.dumps(job.shard), job.tier], cap, env)
    if killed:
        res = {'status': 'inconclusive', 'reason': 'solver job killed at wall cap %ds' % cap}
    elif '@@RESULT@@' in out:
        res = _unjson(json.loads(out.split('@@RESULT@@')[-1]))
    else:
        res = {'status': 'inconclusive', 'reason': 'solver job crashed: ' + (err or out)[-400:]}
    job.wall = time.time() - t0
    job.queries = res.get('queries', 0)
    job.solver_s = res.get('solver_s', 0.0)
    job.paths = res.get('evaluations', job.queries)
    job.completed = res.get('nontrivial', job.queries)
    job.twin = res.get('sample')
    job.extra.update(res.get('extra', {}))
    if res['status'] == 'confirmed':
        job.status = 'confirmed'
    elif res['status'] == 'cex':
        _replay_and_classify(prop, job, res['kwargs'], res.get('reason', 'solver model'))
    else:
        job.status = 'inconclusive'
        job.reason = res.get('reason', '')
    return job


# ---------------------------------------------------------------- findings

def load_findings():
    known, fixed = {}, {}
    if os.path.exists(FINDINGS):
        with open(FINDINGS) as f:
            for line in f:
                line = line.strip()
                if not line or line.startswith('#'):
                    continue
                if line.startswith('fixed:'):
                    fixed[line] = True
                    continue
                rec = json.loads(line)
                known[(rec['property'], rec['key'])] = rec
    return known, fixed


# ---------------------------------------------------------------- main driver

def fq(f):
    if isinstance(f, str):
        return f
    try:
        src = inspect.getsourcefile(f)
        _, line = inspect.getsourcelines(f)
        return '%s.%s (%s:%d)' % (f.__module__, f.__qualname__, os.path.relpath(src, REPO), line)
    except Exception:
        return repr(f)


def run_property(prop, tier, only=None, workers=None):
    t0 = time.time()
    seed = int(os.environ.get('VERIF_SEED', '0') or 0)
    sys.path.insert(0, ROOT)
    mod = __import__('props.' + prop, fromlist=['*'])
    obs = [o for o in mod.OBLIGATIONS if tier == 'thorough' or o.tier == 'quick']
    if only:
        obs = [o for o in obs if any(re.search(x, o.name) for x in only)]
    jobs = []
    for o in obs:
        jobs += expand(o, tier)
    random.Random(seed).shuffle(jobs)
    # longest first helps packing
    jobs.sort(key=lambda j: -j.timeout)
    workers = workers or int(os.environ.get('VF_WORKERS', '0')) or (os.cpu_count() or 4)

    def work(job):
        if job.ob.engine == 'A':
            return run_crosshair(prop, job)
        return run_solver(prop, job)

    with ThreadPoolExecutor(max_workers=workers) as ex:
        list(ex.map(work, jobs))

    known, _fixed = load_findings()
    violations = 0
    lines = []
    for j in sorted(jobs, key=lambda j: j.id):
        if j.status == 'violated':
            # a recorded finding is identified by the obligation's finding key or, more narrowly, by the exact shard (job id)
            key = next((k for k in (j.id, j.ob.finding) if k and (prop, k) in known), None)
            if key:
                j.status = 'known'
                lines.append('KNOWN-FINDING: property=%s %s [%s]' % (prop, known[(prop, key)]['what'], j.id))
            else:
                violations += 1
                lines.append('VIOLATION property=%s replay=%s' % (prop, j.replay_path))
                lines.append('  obligation %s: %s' % (j.id, json.dumps(j.cex)[:600]))
        elif j.status == 'inconclusive':
            lines.append('INCONCLUSIVE property=%s obligation=%s: %s' % (prop, j.id, j.reason[:300]))
    wall = time.time() - t0
    write_evidence(prop, mod, tier, seed, jobs, wall, violations)
    conf = sum(1 for j in jobs if j.status == 'confirmed')
    print('%s tier=%s obligations=%d confirmed=%d known=%d violated=%d inconclusive=%d paths=%d wall=%.1fs' % (
        prop, tier, len(jobs), conf, sum(1 for j in jobs if j.status == 'known'), violations,
        sum(1 for j in jobs if j.status == 'inconclusive'), sum(j.paths for j in jobs), wall))
    for l in lines:
        print(l)
    sys.stdout.flush()
    return 1 if violations else 0


def write_evidence(prop, mod, tier, seed, jobs, wall, violations):
    os.makedirs(EVIDENCE, exist_ok=True)
    funcs = []
    for j in jobs:
        for f in j.ob.functions:
            q = fq(f)
            if q not in funcs:
                funcs.append(q)
    samples = []
    seen = set()
    for j in sorted(jobs, key=lambda j: j.id):
        if j.ob.name in seen:
            continue
        seen.add(j.ob.name)
        samples.append({'obligation': j.id, 'engine': j.ob.engine,
                        'witness_of_reachability_twin_or_model': _jsonable(j.twin),
                        'symbolic': {k: v.desc() for k, v in j.sym.items()},
                        'shard': _jsonable(j.shard), 'status': j.status})
    per = []
    for j in sorted(jobs, key=lambda j: j.id):
        d = {'id': j.id, 'engine': j.ob.engine, 'status': j.status, 'paths': j.paths,
             'paths_completed': j.completed, 'wall_s': round(j.wall, 2),
             'timeout_s': j.timeout, 'bounds': j.ob.bounds}
        if j.queries:
            d['solver_queries'] = j.queries
            d['solver_s'] = round(j.solver_s, 3)
        if j.reason:
            d['reason'] = j.reason[:400]
        if j.cex:
            d['counterexample'] = j.cex
        if j.extra:
            d['extra'] = _jsonable(j.extra)
        per.append(d)
    n = len(jobs)
    disch = sum(1 for j in jobs if j.status == 'confirmed')
    ev = {
        'property_id': prop,
        'tier': tier,
        'seed': seed,
        'level': 'other',
        'coverage': {
            'explanation': getattr(mod, 'EXPLANATION', '') or (
                'Bounded symbolic verification: each obligation executes the real asyncssh '
                'functions listed under functions_encoded on solver-backed symbolic inputs '
                '(CrossHair/z3 per path, or an AST->z3 / re->z3 translation regenerated from '
                '/repo on this run) and is discharged only when every feasible path within the '
                'stated bound satisfies the assertion (CrossHair "Confirmed over all paths" / z3 unsat). '
                'Counterexamples are replayed concretely against /repo before being reported.'),
            'obligations': n,
            'discharged': disch,
            'inconclusive': sum(1 for j in jobs if j.status == 'inconclusive'),
            'known_findings': sum(1 for j in jobs if j.status == 'known'),
            'evaluations': max(1, sum(j.paths for j in jobs)),
            'distinct_nontrivial': max(2 if disch else 0, sum(j.completed for j in jobs)),
            'rule': 'evaluations = symbolic path executions of the harness bodies (CrossHair) plus solver '
                    'queries (Engines B/C); a path is distinct by construction (different branch decisions '
                    'in the real code) and non-trivial when it satisfied all preconditions and ran the real '
                    'functions to the assertion (paths_completed).',
            'samples': samples,
            'functions_encoded': funcs,
            'per_obligation': per,
            'solver_queries': sum(j.queries for j in jobs),
            'solver_s': round(sum(j.solver_s for j in jobs), 3),
            'cpu_s_sum_over_workers': round(sum(j.wall for j in jobs), 1),
            'checker_cmd': './check %s --tier %s' % (prop, tier),
            'trusted_base': ['CrossHair 0.0.110 symbolic interpreter + z3 %s' % _z3v(),
                             'harness oracles and environment stubs in props/%s.py' % prop,
                             'vf/engine_b.py AST->z3 translator (validated against the real function on every run)',
                             'vf/engine_c.py re->z3 translator'],
            'exhaustive': False,
        },
        'assumptions': list(getattr(mod, 'ASSUMPTIONS', [])),
        'wall_s': round(wall, 2),
        'violations': violations,
    }
    with open(os.path.join(EVIDENCE, prop + '.json'), 'w') as f:
        json.dump(ev, f, indent=1)


def _z3v():
    try:
        import z3
        return z3.get_version_string()
    except Exception:
        return '?'
