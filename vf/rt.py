"""Runtime helpers imported by generated harness wrappers and by property
modules.  Nothing in here touches asyncssh."""

import atexit
import json
import os

_stats = {'started': 0, 'completed': 0}


def started() -> None:
    _stats['started'] += 1


def completed() -> None:
    _stats['completed'] += 1


def _dump() -> None:
    path = os.environ.get('VF_STATS')
    if path:
        try:
            with open(path, 'w') as f:
                json.dump(_stats, f)
        except OSError:
            pass


atexit.register(_dump)


class AssumptionFailed(Exception):
    """Raised on concrete replay when an in-harness assumption is false"""


def assume(cond) -> None:
    """Discard the current path/input if cond is false"""

    if cond:
        return

    if os.environ.get('VF_REPLAY'):
        raise AssumptionFailed()

    from crosshair.util import IgnoreAttempt
    raise IgnoreAttempt('assume')


def notrace():
    """Context manager: run the body outside CrossHair's tracing (only ever
    used around C-library calls on *concrete* arguments, e.g. codecs, for
    which CrossHair's own pure-Python models are incomplete)."""
    import contextlib
    if os.environ.get('VF_REPLAY'):
        return contextlib.nullcontext()
    try:
        from crosshair.tracers import NoTracing, is_tracing
        if is_tracing():
            return NoTracing()
    except Exception:
        pass
    return contextlib.nullcontext()


class Fuel(Exception):
    """Raised by fuel counters when a loop exceeds its stated work bound"""


class FuelCounter:
    def __init__(self, limit: int):
        self.limit = limit
        self.used = 0

    def tick(self, n: int = 1) -> None:
        self.used += n
        if self.used > self.limit:
            raise Fuel()


def pick(seq, idx):
    """Select seq[idx] with idx possibly symbolic: a concrete if-chain so that
    the result is a concrete object (index-encoding of strings/choices)."""

    for i in range(len(seq) - 1):
        if idx == i:
            return seq[i]
    return seq[len(seq) - 1]


def cb(x) -> bool:
    """concrete bool equal to (possibly symbolic) x - forks under CrossHair"""
    if x:
        return True
    return False


def conc(n, lo, hi):
    """Concrete int equal to symbolic n in [lo, hi] (forks one path per value):
    used for buffer lengths, which CrossHair handles badly when symbolic."""

    for i in range(lo, hi):
        if n == i:
            return i
    return hi


def enc_bytes(alphabet: bytes, n, idxs) -> bytes:
    """Index-encoded byte string: length n (symbolic int) and per-position
    alphabet indices (symbolic ints) -> concrete bytes object."""

    out = []
    for k in range(len(idxs)):
        if k < n:
            out.append(pick(alphabet, idxs[k]))
    return bytes(out)


def enc_str(alphabet: str, n, idxs) -> str:
    out = []
    for k in range(len(idxs)):
        if k < n:
            out.append(pick(alphabet, idxs[k]))
    return ''.join(out)


def run_native(fn, kwargs):
    """call fn(**kwargs) with CrossHair tracing switched off (all arguments are concrete by now)"""
    with notrace():
        return fn(**kwargs)
