"""Run one Engine B/C/S obligation in its own process (z3's default context is
not thread-safe) and print its result as JSON on the last line."""
import json
import sys
import traceback

from . import core


def main():
    prop, obname, shard, tier = sys.argv[1], sys.argv[2], json.loads(sys.argv[3]), sys.argv[4]
    sys.path.insert(0, core.ROOT)
    mod = __import__('props.' + prop, fromlist=['*'])
    ob = next(o for o in mod.OBLIGATIONS if o.name == obname)
    shard = {k: (tuple(v) if isinstance(v, list) else v) for k, v in shard.items()}
    job = core.Job(ob, shard, tier)
    try:
        res = ob.solver(job)
    except Exception as e:
        res = {'status': 'inconclusive',
               'reason': 'engine error: %s: %s | %s' % (type(e).__name__, e, traceback.format_exc()[-600:])}
    print('\n@@RESULT@@' + json.dumps(core._jsonable_keep(res)))


main()
