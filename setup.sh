#!/bin/bash
# Build /verif/.venv: python 3.12 overlay on /venv (repo deps) + crosshair/z3 from the offline wheelhouse.
set -e
cd "$(dirname "$0")"
V=.venv
if [ -x $V/bin/python ] && $V/bin/python -c "import crosshair, z3, asyncssh" 2>/dev/null; then
  exit 0
fi
rm -rf $V
/venv/bin/python -m venv $V
SP=$V/lib/python3.12/site-packages
echo 'import site; site.addsitedir("/venv/lib/python3.12/site-packages")' > $SP/_base.pth
echo /repo >> $SP/_base.pth
PIP_NO_INDEX=1 $V/bin/pip install -q --no-index --find-links /opt/veriftools/wheels crosshair-tool z3-solver jsonschema >/dev/null 2>&1 || \
  PIP_NO_INDEX=1 $V/bin/pip install --no-index --find-links /opt/veriftools/wheels crosshair-tool z3-solver jsonschema
$V/bin/python -c "import crosshair, z3, asyncssh; print('venv ok', asyncssh.__file__)"
