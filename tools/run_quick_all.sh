#!/bin/bash
# run every registered quick command in sequence against /repo; print one line per property
cd "$(dirname "$0")/.."
for p in C01 C02 C03 C04 C05 C06 C07 C08 C09 C10 C11 C12 C13 C14 C15 C16 C17 C18 C19 C20; do
  s=$(date +%s); out=$(./check $p --tier quick 2>&1); rc=$?; e=$(( $(date +%s) - s ))
  echo "$p exit=$rc wall=${e}s $(echo "$out" | grep -v Deprecat | grep "tier=" | head -1 | cut -c1-140)"
  echo "$out" | grep "^INCONCLUSIVE\|^VIOLATION\|HARNESS" | head -5
done
