#!/bin/bash
# Run the thorough tier for selected obligations only (new / changed ones), isolated from the quick evidence:
#   tools/run_thorough_subset.sh "C02:segmentation" "C05:stale_response|cert_user" ...
# Evidence of each partial run is kept as evidence_thorough/<id>.subset.json
cd "$(dirname "$0")/.."
mkdir -p evidence_thorough
for spec in "$@"; do
  p=${spec%%:*}; only=${spec#*:}
  s=$(date +%s)
  VF_SCRATCH=/tmp/vf_thor VF_WORKERS=${VF_WORKERS:-8} ./check $p --tier thorough --only "$only" > /tmp/thorsub_$p.log 2>&1
  rc=$?
  e=$(( $(date +%s) - s ))
  cp /tmp/vf_thor/evidence/$p.json evidence_thorough/$p.subset.json 2>/dev/null
  echo "$p [$only] exit=$rc wall=${e}s $(grep 'tier=' /tmp/thorsub_$p.log | head -1 | cut -c1-160)"
  grep "^VIOLATION\|HARNESS" /tmp/thorsub_$p.log | head -5
done
