#!/usr/bin/env python3
"""Render evidence_thorough/*.json and evidence/*.json as the tier table of DESIGN.md (between TIER markers)."""
import json, os, glob
ROOT = os.path.dirname(os.path.dirname(os.path.abspath(__file__)))
rows = ['| id | quick: obligations / discharged / symbolic paths / solver queries / wall | thorough (full run, first session grid): obligations / discharged / inconclusive / paths / queries / wall | thorough re-run of the obligations added or changed in rounds 2-4 |', '|---|---|---|---|']
for i in range(1, 21):
    pid = 'C%02d' % i
    cells = []
    for d in ('evidence', 'evidence_thorough'):
        f = os.path.join(ROOT, d, pid + '.json')
        if os.path.exists(f):
            e = json.load(open(f))
            c = e['coverage']
            if d == 'evidence':
                cells.append('%d / %d / %d / %d / %.0f s' % (c['obligations'], c['discharged'], c['evaluations'], c.get('solver_queries', 0), e['wall_s']))
            else:
                cells.append('%d / %d / %d / %d / %d / %.0f s' % (c['obligations'], c['discharged'], c.get('inconclusive', 0), c['evaluations'], c.get('solver_queries', 0), e['wall_s']))
        else:
            cells.append('not run')
    f = os.path.join(ROOT, 'evidence_thorough', pid + '.subset.json')
    if os.path.exists(f):
        e = json.load(open(f))
        c = e['coverage']
        names = sorted({o['id'].split('[')[0] for o in c.get('per_obligation', [])})
        cells.append('%s: %d / %d / %d / %d / %.0f s' % (', '.join(names), c['obligations'], c['discharged'], c.get('inconclusive', 0), c['evaluations'], e['wall_s']))
    else:
        cells.append('-')
    rows.append('| %s | %s | %s | %s |' % (pid, cells[0], cells[1], cells[2]))
p = os.path.join(ROOT, 'DESIGN.md')
s = open(p).read()
a = s.index('<!-- TIER-BEGIN -->') + len('<!-- TIER-BEGIN -->')
b = s.index('<!-- TIER-END -->')
open(p, 'w').write(s[:a] + '\n' + '\n'.join(rows) + '\n' + s[b:])
