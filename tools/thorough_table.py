#!/usr/bin/env python3
"""Render evidence_thorough/*.json and evidence/*.json as the tier table of DESIGN.md (between TIER markers)."""
import json, os, glob
ROOT = os.path.dirname(os.path.dirname(os.path.abspath(__file__)))
rows = ['| id | quick: obligations / discharged / symbolic paths / solver queries / wall | thorough: obligations / discharged / inconclusive / paths / queries / wall |', '|---|---|---|']
for i in range(1, 21):
    pid = 'C%02d' % i
    cells = []
    for d in ('evidence', 'evidence_thorough'):
        f = os.path.join(ROOT, d, pid + '.json')
        if os.path.exists(f):
            e = json.load(open(f))
            c = e['coverage']
            if d == 'evidence':
                cells.append('%d / %d / %d / %d / %.0f s' % (c['obligations'], c['discharged'], c['evaluations'], c.get('solver_queries', 0), e['wall_s']))
            else:
                cells.append('%d / %d / %d / %d / %d / %.0f s' % (c['obligations'], c['discharged'], c.get('inconclusive', 0), c['evaluations'], c.get('solver_queries', 0), e['wall_s']))
        else:
            cells.append('not run')
    rows.append('| %s | %s | %s |' % (pid, cells[0], cells[1]))
p = os.path.join(ROOT, 'DESIGN.md')
s = open(p).read()
a = s.index('<!-- TIER-BEGIN -->') + len('<!-- TIER-BEGIN -->')
b = s.index('<!-- TIER-END -->')
open(p, 'w').write(s[:a] + '\n' + '\n'.join(rows) + '\n' + s[b:])
