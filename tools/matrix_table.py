#!/usr/bin/env python3
"""Render seeded/MATRIX.json as a markdown table into DESIGN.md between the MATRIX markers."""
import json, os, re
ROOT = os.path.dirname(os.path.dirname(os.path.abspath(__file__)))
m = json.load(open(os.path.join(ROOT, 'seeded', 'MATRIX.json')))
rows = ['| change | what it breaks (from meta.json) | check → result |', '|---|---|---|']
caught = missed = neutral = 0
for name in sorted(m):
    meta = {}
    mp = os.path.join(ROOT, 'seeded', name, 'meta.json')
    if os.path.exists(mp):
        meta = json.load(open(mp))
    summ = (meta.get('summary') or '').replace('|', '/').replace('\n', ' ')
    if len(summ) > 150:
        summ = summ[:147] + '...'
    cells = []
    any_caught = False
    for prop, r in sorted(m[name].items()):
        if r.get('caught'):
            any_caught = True
            fv = r.get('first_violation') or ''
            ob = re.search(r'obligation (\S+?)[:\[]', fv)
            cells.append('%s: **caught** (%s)' % (prop, ob.group(1) if ob else 'violation'))
        else:
            cells.append('%s: %s' % (prop, r.get('status', 'not caught')))
    if meta.get('confirmed', {}).get('ok') is False:
        neutral += 1
        rows.append('| %s | %s | no longer breaks the property on the repaired tree (its demo passes; neutralised by a repo fix) - not counted |' % (name, summ))
        continue
    caught += any_caught
    missed += not any_caught
    rows.append('| %s | %s | %s |' % (name, summ or '(revert of a repo fix)', '; '.join(cells)))
rows.append('')
rows.append('%d of %d changes are caught by at least one registered quick check; %d are not; %d neutralised by a later repo fix.' % (caught, caught + missed, missed, neutral))
p = os.path.join(ROOT, 'DESIGN.md')
s = open(p).read()
a = s.index('<!-- MATRIX-BEGIN -->') + len('<!-- MATRIX-BEGIN -->')
b = s.index('<!-- MATRIX-END -->')
open(p, 'w').write(s[:a] + '\n' + '\n'.join(rows) + '\n' + s[b:])
print(caught, missed)
