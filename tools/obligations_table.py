#!/usr/bin/env python3
"""Regenerate DESIGN.md section 9.3 (obligations per property) from props/Cxx.py between the OBL markers."""
import os, sys, importlib
ROOT = os.path.dirname(os.path.dirname(os.path.abspath(__file__)))
sys.path.insert(0, ROOT)
rows = ['| id | obligations: name (engine; quick shards -> thorough shards) - bounds |', '|---|---|']
from vf import core
for i in range(1, 21):
    pid = 'C%02d' % i
    mod = importlib.import_module('props.' + pid)
    cells = []
    for ob in mod.OBLIGATIONS:
        nq = len(list(core.expand(ob, 'quick'))) if hasattr(core, 'expand') else '?'
        nt = len(list(core.expand(ob, 'thorough'))) if hasattr(core, 'expand') else '?'
        b = (ob.bounds or '').replace('|', '/').replace('\n', ' ')
        if len(b) > 160:
            b = b[:157] + '...'
        cells.append('`%s` (%s; %s -> %s) - %s' % (ob.name, ob.engine, nq, nt, b))
    rows.append('| %s | %s |' % (pid, '<br>'.join(cells)))
p = os.path.join(ROOT, 'DESIGN.md')
s = open(p).read()
a = s.index('<!-- OBL-BEGIN -->') + len('<!-- OBL-BEGIN -->')
b = s.index('<!-- OBL-END -->')
open(p, 'w').write(s[:a] + '\n' + '\n'.join(rows) + '\n' + s[b:])
print('ok')
