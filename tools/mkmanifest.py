#!/usr/bin/env python3
"""Regenerate MANIFEST.json from the props modules (MANIFEST dict in each)."""
import importlib, json, os, sys
ROOT = os.path.dirname(os.path.dirname(os.path.abspath(__file__)))
sys.path.insert(0, ROOT)
os.environ['VF_REPLAY'] = '1'
ids = [json.loads(l)['id'] for l in open(os.path.join(ROOT, 'properties.jsonl'))]
NA = json.load(open(os.path.join(ROOT, 'tools', 'not_applicable.json')))
checks, na = [], []
for pid in ids:
    if not os.path.exists(os.path.join(ROOT, 'props', pid + '.py')):
        na.append({'property_id': pid, 'reason': NA.get(pid, 'no check built for this property in the time available')})
        continue
    m = importlib.import_module('props.' + pid)
    mf = m.MANIFEST
    checks.append({
        'property_id': pid,
        'quick_cmd': './check %s --tier quick' % pid,
        'thorough_cmd': './check %s --tier thorough' % pid,
        'evidence_file': 'evidence/%s.json' % pid,
        'replay_cmd_template': './check --replay {path}',
        'engine': mf.get('engine', 'crosshair+z3'),
        'level_claimed': {'category': 'other', 'text': mf['text'], 'design_ref': mf.get('design_ref', 'DESIGN.md section 5, ' + pid)},
        'level_note': mf['note'],
        'technique': mf['technique'],
    })
man = {
    'version': 1,
    'setup_cmd': './setup.sh',
    'hooks': {'guard': 'ASYNCSSH_VERIF', 'enable': 'no source hooks are used: all environment stubs are installed in the harness process after import',
              'baseline_off_cmd': 'cd /repo && /venv/bin/python -m pytest -ra -q -p no:cacheprovider --timeout=900 --continue-on-collection-errors',
              'source_commits': [], 'add_only': True},
    'engines': [
        {'name': 'A', 'path': 'vf/core.py', 'kind_free_text': 'CrossHair 0.0.110 symbolic execution (z3 per path) of the real asyncssh functions through generated PEP316 wrappers; replay of every counterexample on the plain interpreter',
         'serves_properties': [c['property_id'] for c in checks]},
        {'name': 'B', 'path': 'vf/engine_b.py', 'kind_free_text': 'AST->z3 symbolic interpreter with If-merged state for arithmetic/bit-level kernels read from /repo source on every run',
         'serves_properties': [c['property_id'] for c in checks if 'B' in importlib.import_module('props.' + c['property_id']).MANIFEST.get('engines', 'A')]},
        {'name': 'C', 'path': 'vf/engine_c.py', 'kind_free_text': 're -> z3 regular-expression translator for language-level obligations over unbounded strings',
         'serves_properties': [c['property_id'] for c in checks if 'C' in importlib.import_module('props.' + c['property_id']).MANIFEST.get('engines', 'A')]},
    ],
    'checks': checks,
    'not_applicable': na,
    'notes': 'Solver-based checking of the real code only (see DESIGN.md). Exit 0 = no unlisted violation; INCONCLUSIVE lines are reported but do not fail a run; exit 3 = harness error.',
}
json.dump(man, open(os.path.join(ROOT, 'MANIFEST.json'), 'w'), indent=1)
print('checks:', [c['property_id'] for c in checks], 'n/a:', [x['property_id'] for x in na])
