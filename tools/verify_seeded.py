#!/usr/bin/env python3
"""Confirm a seeded change: in a scratch worktree of /repo (HEAD), demo passes
clean, fails with the patch, and the 161 baseline tests still pass with the
patch.  Writes the outcome into seeded/<id>/meta.json (key "confirmed")."""
import json, os, subprocess, sys, shutil, xml.etree.ElementTree as ET

ROOT = os.path.dirname(os.path.dirname(os.path.abspath(__file__)))
STABLE = set(json.load(open('/root/.vp/BASELINE.json'))['stable_pass'])
FILES = sorted({'tests/' + t.split('.')[1] + '.py' for t in STABLE})


def sh(cmd, cwd=None, timeout=3600):
    p = subprocess.run(cmd, shell=True, cwd=cwd, capture_output=True, text=True, timeout=timeout)
    return p.returncode, p.stdout + p.stderr


def main(name, run_tests=True):
    d = os.path.join(ROOT, 'seeded', name)
    wt = '/tmp/sw/' + name
    sh('git -C /repo worktree remove --force %s' % wt)
    os.makedirs('/tmp/sw', exist_ok=True)
    rc, out = sh('git -C /repo worktree add -q --detach %s HEAD' % wt)
    res = {}
    try:
        shutil.copy(os.path.join(d, 'demo.py'), wt + '/_demo.py')
        rc, out = sh('/venv/bin/python _demo.py', cwd=wt, timeout=600)
        res['demo_clean_exit'] = rc
        rc, out = sh('git apply %s' % os.path.join(d, 'patch.diff'), cwd=wt)
        res['patch_applies'] = rc == 0
        if rc == 0:
            try:
                rc, out = sh('/venv/bin/python _demo.py', cwd=wt, timeout=600)
            except subprocess.TimeoutExpired:
                rc, out = 124, 'timeout'
            res['demo_patched_exit'] = rc
            res['demo_patched_tail'] = out.strip()[-300:]
            if run_tests:
                rc, out = sh('/venv/bin/python -m pytest -q -p no:cacheprovider --timeout=900 --continue-on-collection-errors '
                             '--junitxml=_junit.xml %s' % ' '.join(FILES), cwd=wt, timeout=3600)
                passed = set()
                for tc in ET.parse(wt + '/_junit.xml').getroot().iter('testcase'):
                    if not list(tc):
                        passed.add('%s::%s' % (tc.get('classname'), tc.get('name')))
                missing = sorted(STABLE - passed)
                res['baseline_tests_missing'] = missing
                res['baseline_tests_pass'] = not missing
        res['ok'] = bool(res.get('demo_clean_exit') == 0 and res.get('patch_applies') and
                         res.get('demo_patched_exit') not in (0, None) and
                         (not run_tests or res.get('baseline_tests_pass')))
    finally:
        sh('git -C /repo worktree remove --force %s' % wt)
    mp = os.path.join(d, 'meta.json')
    meta = json.load(open(mp))
    meta['confirmed'] = res
    meta['confirmed_against_repo_commit'] = sh('git -C /repo rev-parse --short HEAD')[1].strip()
    json.dump(meta, open(mp, 'w'), indent=1)
    print(name, 'OK' if res['ok'] else 'NOT-OK', json.dumps(res)[:300])


if __name__ == '__main__':
    main(sys.argv[1], run_tests='--no-tests' not in sys.argv)
