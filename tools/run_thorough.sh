#!/bin/bash
# Run every thorough command once, end to end, against /repo; keep a copy of each evidence file under evidence_thorough/.
cd "$(dirname "$0")/.."
mkdir -p evidence_thorough
for p in "$@"; do
  s=$(date +%s)
  ./check $p --tier thorough > /tmp/thorough_$p.log 2>&1
  rc=$?
  e=$(( $(date +%s) - s ))
  cp evidence/$p.json evidence_thorough/$p.json 2>/dev/null
  echo "$p exit=$rc wall=${e}s $(head -1 /tmp/thorough_$p.log | cut -c1-160)"
done
