#!/bin/bash
# tools/seedtest.sh <patch.diff> <Cxx> [check args...] : apply a seeded change to /repo, run a check, undo.
P=$(realpath "$1"); shift
cd /verif
if ! git -C /repo apply --check "$P" 2>/dev/null; then echo "PATCH-DOES-NOT-APPLY $P"; exit 9; fi
git -C /repo apply "$P"
./check "$@"; rc=$?
git -C /repo checkout -- . ; git -C /repo reset -q
echo "exit=$rc"
