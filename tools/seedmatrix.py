#!/usr/bin/env python3
"""Run every seeded change (seeded/<id>/patch.diff, and the fix-reverts) against the
quick check of its own property (plus extra properties given in EXTRA) and record
caught / missed in seeded/MATRIX.json.  Applies each patch to /repo, runs, reverts."""
import json, os, re, subprocess, sys
ROOT = os.path.dirname(os.path.dirname(os.path.abspath(__file__)))
EXTRA = {'C09-m2': ['C19'], 'C01-m2': ['C06'], 'C04-m1': ['C17'], 'C06-m2': ['C11']}
FIXREV = {'rev_b76484b': ['C08'], 'rev_e583a4c': ['C10'], 'rev_f77b91d': ['C10'], 'rev_ad4ff85': ['C10'],
          'rev_9ce0a04': ['C13'], 'rev_1affcd2': ['C13'], 'rev_09dadb9': ['C13'], 'rev_1dd29be': ['C05'],
          'rev_43d8e78': ['C17'], 'rev_d85a310': ['C16'], 'rev_0f277e1': ['C16'], 'rev_05231ac': ['C20'], 'rev_8b244e6': ['C15']}


def sh(cmd):
    return subprocess.run(cmd, shell=True, capture_output=True, text=True)


def run(patch, prop):
    if sh('git -C /repo apply --check %s' % patch).returncode:
        return {'status': 'patch-does-not-apply'}
    sh('git -C /repo apply %s' % patch)
    try:
        p = sh('cd %s && ./check %s --tier quick' % (ROOT, prop))
    finally:
        sh('git -C /repo checkout -- . ')
    m = re.search(r'obligations=(\d+) confirmed=(\d+) known=(\d+) violated=(\d+) inconclusive=(\d+)', p.stdout)
    first = [l for l in p.stdout.splitlines() if l.startswith('  obligation ')][:1]
    return {'exit': p.returncode, 'caught': p.returncode == 1 and 'VIOLATION property=' in p.stdout,
            'summary': m.group(0) if m else p.stdout[-200:], 'first_violation': first[0][:200] if first else None}


def main():
    only = sys.argv[1:]
    path = os.path.join(ROOT, 'seeded', 'MATRIX.json')
    matrix = json.load(open(path)) if os.path.exists(path) else {}
    jobs = []
    for name in sorted(os.listdir(os.path.join(ROOT, 'seeded'))):
        d = os.path.join(ROOT, 'seeded', name)
        if name == 'fix-reverts' or not os.path.isdir(d):
            continue
        prop = name.split('-')[0]
        for pr in [prop] + EXTRA.get(name, []):
            jobs.append((name, os.path.join(d, 'patch.diff'), pr))
    for name, props in FIXREV.items():
        f = os.path.join(ROOT, 'seeded', 'fix-reverts', name + '.diff')
        if os.path.exists(f):
            for pr in props:
                jobs.append(('fix-revert/' + name, f, pr))
    for name, patch, prop in jobs:
        if only and not any(o in name for o in only):
            continue
        r = run(patch, prop)
        matrix.setdefault(name, {})[prop] = r
        print(name, prop, 'CAUGHT' if r.get('caught') else r.get('status', 'missed'), r.get('summary', ''), flush=True)
        json.dump(matrix, open(path, 'w'), indent=1, sort_keys=True)


main()
