#!/usr/bin/env python3
"""Run every seeded change (seeded/<id>/patch.diff, and the fix-reverts) against the
quick check of its own property (plus extra properties given in EXTRA) and record
caught / missed in seeded/MATRIX.json.  Each patch is applied in its own scratch worktree of /repo HEAD (never in /repo itself); 3 at a time."""
import json, os, re, subprocess, sys
ROOT = os.path.dirname(os.path.dirname(os.path.abspath(__file__)))
EXTRA = {'C19-r4m1': ['C08'], 'C07-r4m1': ['C11'], 'C05-r4m1': ['C17'], 'C06-r3m1': ['C05'], 'C04-r3m1': ['C17'], 'C09-m2': ['C19'], 'C01-m2': ['C06'], 'C04-m1': ['C17'], 'C06-m2': ['C11']}
FIXREV = {'rev_b76484b': ['C08'], 'rev_e583a4c': ['C10'], 'rev_f77b91d': ['C10'], 'rev_ad4ff85': ['C10'],
          'rev_9ce0a04': ['C13'], 'rev_1affcd2': ['C13'], 'rev_09dadb9': ['C13'], 'rev_1dd29be': ['C05'],
          'rev_43d8e78': ['C17'], 'rev_d85a310': ['C16'], 'rev_0f277e1': ['C16'], 'rev_05231ac': ['C20'], 'rev_8b244e6': ['C15'], 'rev_6dbf8c7': ['C01'], 'rev_adfd3df': ['C13'], 'rev_38d4983': ['C05'], 'rev_c685d9f': ['C10'], 'rev_ac87e57': ['C13'], 'rev_bb876fb': ['C10'], 'rev_962c916': ['C15']}


def sh(cmd):
    return subprocess.run(cmd, shell=True, capture_output=True, text=True)


def run(name, patch, prop):
    """apply the patch in a scratch worktree of /repo HEAD and run the check against it (VF_REPO / VF_SCRATCH)"""
    wt = '/tmp/sw/mx-' + re.sub(r'[^A-Za-z0-9]+', '_', name + '_' + prop)
    sh('git -C /repo worktree remove --force %s' % wt)
    os.makedirs('/tmp/sw', exist_ok=True)
    if sh('git -C /repo worktree add -q --detach %s HEAD' % wt).returncode:
        return {'status': 'worktree-failed'}
    try:
        if sh('git -C %s apply %s' % (wt, patch)).returncode:
            return {'status': 'patch-does-not-apply'}
        env = 'VF_REPO=%s VF_SCRATCH=%s/.vf VF_WORKERS=5' % (wt, wt)
        p = sh('cd %s && %s ./check %s --tier quick' % (ROOT, env, prop))
    finally:
        sh('git -C /repo worktree remove --force %s' % wt)
    m = re.search(r'obligations=(\d+) confirmed=(\d+) known=(\d+) violated=(\d+) inconclusive=(\d+)', p.stdout)
    first = [l for l in p.stdout.splitlines() if l.startswith('  obligation ')][:1]
    return {'exit': p.returncode, 'caught': p.returncode == 1 and 'VIOLATION property=' in p.stdout,
            'summary': m.group(0) if m else (p.stdout + p.stderr)[-200:], 'first_violation': first[0][:200] if first else None}


def main():
    only = sys.argv[1:]
    path = os.path.join(ROOT, 'seeded', 'MATRIX.json')
    matrix = json.load(open(path)) if os.path.exists(path) else {}
    jobs = []
    for name in sorted(os.listdir(os.path.join(ROOT, 'seeded'))):
        d = os.path.join(ROOT, 'seeded', name)
        if name == 'fix-reverts' or not os.path.isdir(d):
            continue
        prop = name.split('-')[0]
        for pr in [prop] + EXTRA.get(name, []):
            jobs.append((name, os.path.join(d, 'patch.diff'), pr))
    for name, props in FIXREV.items():
        f = os.path.join(ROOT, 'seeded', 'fix-reverts', name + '.diff')
        if os.path.exists(f):
            for pr in props:
                jobs.append(('fix-revert/' + name, f, pr))
    from concurrent.futures import ThreadPoolExecutor
    jobs = [j for j in jobs if not only or any(o in j[0] for o in only)]

    def work(job):
        name, patch, prop = job
        r = run(name, patch, prop)
        print(name, prop, 'CAUGHT' if r.get('caught') else r.get('status', 'missed'), r.get('summary', ''), flush=True)
        return name, prop, r

    with ThreadPoolExecutor(max_workers=int(os.environ.get('MX_PAR', '3'))) as ex:
        for name, prop, r in ex.map(work, jobs):
            matrix.setdefault(name, {})[prop] = r
            json.dump(matrix, open(path, 'w'), indent=1, sort_keys=True)


main()
