"""C16 - Signatures and certificates verify only when nothing was altered"""

import hashlib
import importlib

from asyncssh import public_key as PK
from asyncssh.packet import SSHPacket, PacketDecodeError, UInt32, UInt64, String, Byte

from vf.core import Ob, R, B
from vf.rt import assume, pick, conc, cb, notrace

SS = importlib.import_module('asyncssh.sshsig')

ASSUMPTIONS = [
    'signature primitives are a free model: verify_ssh(data, alg, blob) is true iff blob == String(b"SIG"+key id+alg+data) - unforgeable and binding '
    'key, algorithm and message; what is verified is asyncssh\'s own discipline around the primitive (algorithm-name check, framing, what bytes are '
    'covered, error handling). The real RSA/ECDSA/EdDSA verify calls live in PyCA (C) and are assumed correct',
    'hashes in SSHSIG are the real hashlib functions on concrete messages',
    'allowed-signers / certificate keys are model keys; X.509 is not examined; the clock is an explicit symbolic integer',
]


class MKey(PK.SSHKey):
    """SSHKey with the free signature model plugged in below SSHKey.verify/sign"""
    algorithm = b'alg-a'
    sig_algorithms = (b'alg-a', b'alg-b')
    all_sig_algorithms = {b'alg-a', b'alg-b'}

    def __init__(self, kid):
        self.kid = kid
        self._comment = None
        self._filename = None
        self._key = None
        self.use_executor = False
        self._touch_required = False

    @property
    def public_data(self):
        return String(b'mkey') + String(self.kid)

    def sign_ssh(self, data, sig_algorithm):
        return String(b'SIG' + self.kid + sig_algorithm + data)

    def verify_ssh(self, data, sig_algorithm, packet):
        sig = packet.get_string()
        packet.check_end()
        return sig == b'SIG' + self.kid + sig_algorithm + data

    def __eq__(self, other):
        return isinstance(other, MKey) and other.kid == self.kid

    def __hash__(self):
        return hash(self.kid)

    def convert_to_public(self):
        return self

    # key handler interface used by certificate decoding
    @classmethod
    def decode_ssh_public(cls, packet):
        return packet.get_string()

    @classmethod
    def make_public(cls, params):
        return MKey(params)


def _dec_pub(data):
    try:
        p = SSHPacket(data)
        if p.get_string() != b'mkey':
            raise PK.KeyImportError('unknown')
        kid = p.get_string()
        p.check_end()
        return MKey(kid)
    except PacketDecodeError:
        raise PK.KeyImportError('bad') from None


ALGS = [b'alg-a', b'alg-b', b'x509v3-alg-a', b'alg-', b'', b'unknown']


def verify_discipline(alg_i: int, flaw: int, cut: int) -> bool:
    """SSHKey.verify: a signature made over data d with algorithm alg-a
    verifies, and fails when the data, the key, the signature bytes or the
    algorithm *name* differ in any way (including an added x509v3- prefix);
    malformed blobs are False, never an exception."""
    key, other = MKey(b'K1'), MKey(b'K2')
    d = b'message'
    sig = key.sign(d, b'alg-a')
    relabel = pick(ALGS, alg_i)
    p = SSHPacket(sig)
    p.get_string()
    blob = String(relabel) + p.get_remaining_payload()
    kind = pick(['none', 'data', 'key', 'byte', 'trunc', 'extend'], flaw)
    vkey, vdata = key, d
    if kind == 'data':
        vdata = b'messagf'
    elif kind == 'key':
        vkey = other
    elif kind == 'byte':
        cut = conc(cut, 0, len(blob) - 1)
        blob = blob[:cut] + bytes([blob[cut] ^ 1]) + blob[cut + 1:]
    elif kind == 'trunc':
        cut = conc(cut, 0, len(blob) - 1)
        blob = blob[:cut]
    elif kind == 'extend':
        blob = blob + b'\0'
    try:
        r = vkey.verify(vdata, blob)
    except Exception:
        return False
    return r == (relabel == b'alg-a' and kind == 'none')


def _cert_blob(ctype, key_id, principals, after, before, options, extensions, cakid=b'CA', signer=None, pubkid=b'USERKEY'):
    body = String(b'mcert') + String(b'NONCE') + String(pubkid) + UInt64(7) + UInt32(ctype) + String(key_id) + \
        String(b''.join(String(p) for p in principals)) + UInt64(after) + UInt64(before) + \
        String(options) + String(extensions) + String(b'') + String(MKey(cakid).public_data)
    sk = signer or MKey(cakid)
    return body, body + String(sk.sign(body, b'alg-a'))


def _construct(blob):
    saved = PK.decode_ssh_public_key
    PK.decode_ssh_public_key = _dec_pub
    try:
        p = SSHPacket(blob)
        alg = p.get_string()
        return PK.SSHOpenSSHCertificateV01.construct(p, alg, MKey, None)
    finally:
        PK.decode_ssh_public_key = saved


def cert_signature(pos: int, flaw: int, ctype: int) -> bool:
    """Certificate import: the CA signature is checked over exactly the
    certificate bytes up to the signature field - any single-byte edit
    anywhere in the blob, a signature by another key, truncation or trailing
    data makes the import fail with KeyImportError; the untouched blob
    imports with its fields intact."""
    ctype = pick([1, 2], ctype)
    body, blob = _cert_blob(ctype, b'id', [b'alice'], 5, 50, b'', String(b'permit-pty') + String(b'') if ctype == 1 else b'')
    kind = pick(['none', 'byte', 'othersigner', 'trunc', 'extend'], flaw)
    if kind == 'byte':
        pos = conc(pos, 0, len(blob) - 1)
        blob = blob[:pos] + bytes([blob[pos] ^ 0x01]) + blob[pos + 1:]
    elif kind == 'othersigner':
        _, blob = _cert_blob(ctype, b'id', [b'alice'], 5, 50, b'', String(b'permit-pty') + String(b'') if ctype == 1 else b'',
                             signer=MKey(b'EVIL'))
    elif kind == 'trunc':
        pos = conc(pos, 0, len(blob) - 1)
        blob = blob[:pos]
    elif kind == 'extend':
        blob = blob + b'\0'
    try:
        cert = _construct(blob)
    except (PK.KeyImportError, PacketDecodeError, ValueError):
        # PacketDecodeError/ValueError are converted to KeyImportError by decode_ssh_certificate, the public entry point
        return kind != 'none'
    except Exception:
        return False
    if kind != 'none':
        return False
    return cert.principals == ['alice'] and cert._valid_after == 5 and cert._valid_before == 50 and \
        cert._cert_type == ctype and cert.signing_key == MKey(b'CA') and cert.key == MKey(b'USERKEY')


PLISTS = [[], [b''], [b'alice'], [b'', b'alice'], [b'alice', b'bob'], [b'alice', b'']]


def cert_fields(pi: int, ctype: int, after: int, before: int) -> bool:
    """Certificate import keeps every field exactly as signed: the principal
    list (including empty-string principals, which must not turn the list into
    the empty "any principal" list), type, validity window, key id."""
    ctype = pick([1, 2], ctype)
    pl = pick(PLISTS, pi)
    body, blob = _cert_blob(ctype, b'key-id', pl, after, before, b'', b'')
    try:
        cert = _construct(blob)
    except Exception:
        return False
    return cert.principals == [p.decode() for p in pl] and cert._cert_type == ctype and \
        cert._valid_after == after and cert._valid_before == before and cert._key_id == 'key-id'


EXT_DATA = [b'', String(b''), b'permit-X11-forwarding', String(b'permit-port-forwarding'), String(b'x') + String(b'')]


def cert_options(ctype: int, crit_unknown: bool, ext_unknown: bool, di: int, known_after: bool) -> bool:
    """Certificate options: an unrecognised *critical option* rejects the
    certificate; an unrecognised *extension* is ignored - whatever its data -
    without changing which recognised extensions are in force."""
    ctype = pick([1, 2], ctype)
    options = String(b'verify-bogus') + String(String(b'x')) if crit_unknown else b''
    ext = b''
    if ext_unknown:
        ext += String(b'login@example.com') + String(pick(EXT_DATA, di))
    if known_after and ctype == 1:
        ext += String(b'permit-pty') + String(b'')
    body, blob = _cert_blob(ctype, b'id', [], 0, 100, options, ext)
    try:
        cert = _construct(blob)
    except (PK.KeyImportError, PacketDecodeError):
        return crit_unknown
    except Exception:
        return False
    if crit_unknown:
        return False
    want = {'permit-pty': True} if (known_after and ctype == 1) else {}
    return dict(cert.options) == want


class Clock:
    def __init__(self, now):
        self.now = now

    def time(self):
        return self.now


def cert_principal_rule(pi: int, ctype: int, want_type: int, wi: int, now: int) -> bool:
    """A decoded certificate validates for a wanted principal iff its type is
    the wanted type, now lies in [valid_after, valid_before) and the wanted
    principal is listed (an empty principal list means any; None means "do not
    check") - the empty string is a name like any other, not a wildcard."""
    ctype = pick([1, 2], ctype)
    pl = pick(PLISTS, pi)
    wanted = pick([None, '', 'alice', 'carol'], wi)
    body, blob = _cert_blob(ctype, b'key-id', pl, 1, 3, b'', b'')
    try:
        cert = _construct(blob)
    except Exception:
        return False
    saved = PK.time
    PK.time = Clock(now)
    try:
        try:
            cert.validate(want_type, wanted)
            ok = True
        except ValueError:
            ok = False
    finally:
        PK.time = saved
    names = [p.decode() for p in pl]
    ref = (want_type == PK.CERT_TYPE_ANY or want_type == ctype) and 1 <= now < 3 and \
        (wanted is None or not names or wanted in names)
    return ok == ref


def _sshsig_blob(pub, ns, hash_name, sigblob, magic=b'SSHSIG', version=1, reserved=b''):
    return magic + UInt32(version) + String(pub) + String(ns) + String(reserved) + String(hash_name) + String(sigblob)


def sshsig_validate(flaw: int, ns_opt: int, who: int, va: int, vb: int, now: int, cut: int) -> bool:
    """validate_sshsig: true only if the blob is well formed, the key's
    signature covers "SSHSIG" || namespace || "" || hash name || H(message) for
    *this* message and the namespace carried in the blob, and an allowed-signers
    entry for that key matches the principal, the namespace restriction and the
    validity window; every malformed or mismatching blob is False - never an
    exception."""
    key = MKey(b'SIGNER')
    msg = b'the message'
    ns = 'file'
    hname = b'sha256'
    signed = b'SSHSIG' + String(ns) + String(b'') + String(hname) + String(hashlib.sha256(msg).digest())
    kind = pick(['none', 'magic', 'version', 'hash', 'msg', 'ns', 'key', 'trunc', 'extend', 'sigalg', 'emptyns'], flaw)
    blob_ns, blob_hash = ns, hname
    sig = key.sign(signed, b'alg-a')
    pub = key.public_data
    vmsg = msg
    magic, version = b'SSHSIG', 1
    if kind == 'magic':
        magic = b'SSHSIH'
    elif kind == 'version':
        version = 2
    elif kind == 'hash':
        blob_hash = b'md5'
    elif kind == 'msg':
        vmsg = b'another message'
    elif kind == 'ns':
        blob_ns = 'git'            # blob claims another namespace than the one that was signed
    elif kind == 'key':
        pub = MKey(b'OTHER').public_data
    elif kind == 'sigalg':
        sig = String(b'unknown') + String(b'x')
    elif kind == 'emptyns':
        blob_ns = ''
    blob = _sshsig_blob(pub, blob_ns, blob_hash, sig, magic, version)
    if kind == 'trunc':
        cut = conc(cut, 0, len(blob) - 1)
        blob = blob[:cut]
    elif kind == 'extend':
        blob += b'\0'
    nsopt = pick([None, 'file', 'git', 'f*,!file'], ns_opt)
    principal = pick(['alice', 'bob'], who)
    # allowed signers: entry for alice with the signer key, optional restrictions
    entry = SS.SSHAllowedSignersEntry.__new__(SS.SSHAllowedSignersEntry)
    SS.OptionsParser.__init__(entry)
    entry.principals = SS.WildcardPatternList('alice')
    entry.key = key
    if nsopt is not None:
        entry._set_pattern('namespaces', nsopt)
    if va >= 0:
        entry.options['valid-after'] = va
    if vb >= 0:
        entry.options['valid-before'] = vb
    signers = SS.SSHAllowedSigners()
    signers._key_entries.append(entry)
    saved = (SS.decode_ssh_public_key, SS.decode_ssh_certificate, SS.time)

    def no_cert(data, *a):
        raise SS.KeyImportError('not a cert')

    SS.decode_ssh_public_key, SS.decode_ssh_certificate, SS.time = _dec_pub, no_cert, Clock(now)
    try:
        try:
            r = SS.validate_sshsig(vmsg, blob, principal, signers)
        except Exception:
            return False                      # documented result is a bool
    finally:
        SS.decode_ssh_public_key, SS.decode_ssh_certificate, SS.time = saved
    ns_ok = nsopt is None or nsopt == 'file'
    time_ok = (va < 0 or now >= va) and (vb < 0 or now < vb)
    want = kind == 'none' and principal == 'alice' and ns_ok and time_ok
    return r is want


def sshsig_signed_data(ns_i: int, hi: int, hashed: bool) -> bool:
    """_signed_data layout (what is actually signed)"""
    ns = pick(['file', 'git', 'a'], ns_i)
    hn = pick([b'sha256', b'sha512'], hi)
    msg = b'payload'
    dig = hashlib.new(hn.decode(), msg).digest()
    got = SS._signed_data(dig if hashed else msg, hashed, hn, ns)
    return got == b'SSHSIG' + String(ns) + String(b'') + String(hn) + String(dig)


# ---------------------------------------------------------------- real keys x signature algorithms (native execution)

import asyncssh

_RK = {}


def _rkey(kind):
    if kind not in _RK:
        _RK[kind] = {'rsa': lambda: asyncssh.generate_private_key('ssh-rsa', key_size=1024),
                     'ecdsa256': lambda: asyncssh.generate_private_key('ecdsa-sha2-nistp256'),
                     'ecdsa384': lambda: asyncssh.generate_private_key('ecdsa-sha2-nistp384'),
                     'ed25519': lambda: asyncssh.generate_private_key('ssh-ed25519'),
                     'ed448': lambda: asyncssh.generate_private_key('ssh-ed448')}[kind]()
    return _RK[kind]


RKINDS = ['rsa', 'ecdsa256', 'ecdsa384', 'ed25519', 'ed448']


def real_sig_matrix(kind: int, ai: int, flaw: int, pos: int, bi: int) -> bool:
    """Real keys of every type x every signature algorithm they offer: the
    signature verifies under the matching public key; it fails for another
    message, another key, an algorithm name replaced by any other registered
    name that denotes a different algorithm, a bit flipped at any position of
    the blob, truncation or extension - and never raises."""
    k = pick(RKINDS, kind)
    with notrace():
        key = _rkey(k)
        algs = list(key.sig_algorithms)
    alg = algs[conc(ai, 0, 5) % len(algs)]
    fl = pick(['none', 'data', 'key', 'alg', 'flip', 'trunc', 'extend'], flaw)
    pos = conc(pos, 0, 63)
    bi = conc(bi, 0, 7)
    with notrace():
        msg = b'message to sign'
        sig = key.sign(msg, alg)
        pub = key.convert_to_public()
        vkey, vmsg, blob = pub, msg, sig
        same_alg_group = None
        if fl == 'data':
            vmsg = b'message to sigm'
        elif fl == 'key':
            vkey = asyncssh.generate_private_key('ssh-ed25519').convert_to_public() if k != 'ed25519' else _rkey('ed448').convert_to_public()
        elif fl == 'alg':
            others = [a for a in sorted(pub.all_sig_algorithms) if a != alg]
            if not others:
                return True
            other = others[pos % len(others)]
            p = SSHPacket(sig)
            p.get_string()
            blob = String(other) + p.get_remaining_payload()
            # names that select the same hash for RSA denote the same algorithm (aliases): relabelling among them is not an alteration
            h = lambda a: (b'512' in a, b'256' in a, b'384' in a, b'224' in a)
            same_alg_group = k == 'rsa' and h(other) == h(alg)
        elif fl == 'flip':
            i = (pos * 7) % len(sig)
            blob = sig[:i] + bytes([sig[i] ^ (1 << bi)]) + sig[i + 1:]
        elif fl == 'trunc':
            blob = sig[:(pos * 7) % len(sig)]
        elif fl == 'extend':
            blob = sig + b'\0'
        try:
            r = vkey.verify(vmsg, blob)
        except Exception:
            return False
    if fl == 'none':
        return r is True
    if fl == 'alg' and same_alg_group:
        return True
    if fl == 'flip' and k.startswith('ecdsa'):
        # DER-encoded (r, s) integers inside the blob have redundant encodings only if malformed: any change must still fail
        return r is False
    return r is False


OBLIGATIONS = [
    Ob('verify_discipline', verify_discipline, sym=dict(alg_i=R(0, 5), flaw=R(0, 5), cut=R(0, 40)), shards=dict(flaw=[0, 1, 2, 3, 4, 5]), timeout=150,
       functions=[PK.SSHKey.verify, PK.SSHKey.sign],
       bounds='signature relabelled with 6 algorithm names (incl. registered sibling, x509v3- prefix, prefix of the name, empty); data/key changed; any single byte flipped; any truncation; trailing byte'),
    Ob('real_sig_matrix', real_sig_matrix, sym=dict(ai=R(0, 5), pos=R(0, 63), bi=R(0, 7)),
       shards=dict(kind=[0, 1, 3], flaw=[0, 1, 2, 3, 4, 5, 6], bi=[0, 7]),
       thorough_shards=dict(kind=[0, 1, 2, 3, 4], flaw=[0, 1, 2, 3, 4, 5, 6], bi=[0, 1, 2, 3, 4, 5, 6, 7]),
       timeout=300, thorough_timeout=900,
       functions=[PK.SSHKey.verify, PK.SSHKey.sign, 'asyncssh.rsa.RSAKey.verify_ssh', 'asyncssh.ecdsa.ECDSAKey.verify_ssh', 'asyncssh.eddsa.EdDSAKey.verify_ssh'],
       bounds='real RSA-1024 / ECDSA-256 / Ed25519 keys (thorough: + ECDSA-384, Ed448) x every signature algorithm of the key x {other message, other key, every other registered algorithm name, bit b flipped at 64 positions spread over the blob, 64 truncation points, trailing byte}'),
    Ob('cert_signature', cert_signature, sym=dict(pos=R(0, 200), ctype=R(0, 1)), shards=dict(flaw=[0, 1, 2, 3, 4]), timeout=250,
       functions=[PK.SSHOpenSSHCertificate.construct, PK.SSHOpenSSHCertificateV01._decode],
       bounds='user/host certificate (~150 bytes): bit flip at every byte position, truncation at every position, other signer, trailing byte'),
    Ob('cert_fields', cert_fields, sym=dict(pi=R(0, 5), ctype=R(0, 1), after=R(0, 3), before=R(0, 3)), timeout=150,
       functions=[PK.SSHOpenSSHCertificate.construct],
       bounds='6 principal lists incl. empty-string principals, both types, window values 0..3'),
    Ob('cert_principal_rule', cert_principal_rule, sym=dict(pi=R(0, 5), ctype=R(0, 1), want_type=R(0, 2), wi=R(0, 3), now=R(0, 3)), timeout=200,
       functions=[PK.SSHOpenSSHCertificate.validate, PK.SSHOpenSSHCertificate.construct],
       bounds='6 principal lists (incl. empty-string entries) x certificate type x wanted type (any/user/host) x wanted principal {None, "", listed, unlisted} x clock 0..3 against window [1,3)'),
    Ob('cert_options', cert_options, sym=dict(ctype=R(0, 1), crit_unknown=B, ext_unknown=B, di=R(0, 4), known_after=B), timeout=150,
       functions=[PK.SSHOpenSSHCertificate._decode_options, PK.SSHOpenSSHCertificate.construct],
       bounds='unknown critical option present or not; unknown extension with 5 kinds of data (empty, packed empty, a known extension name raw or packed, nested pair) followed or not by a known extension'),
    Ob('sshsig_validate', sshsig_validate,
       sym=dict(flaw=R(0, 10), ns_opt=R(0, 3), who=R(0, 1), va=R(-1, 3), vb=R(-1, 3), now=R(0, 3), cut=R(0, 160)),
       shards=dict(flaw=[0, 1, 2, 3, 4, 5, 6, 8, 9, 10]), timeout=250,
       functions=[SS.validate_sshsig, SS._signed_data, SS.SSHAllowedSigners.validate, SS.SSHAllowedSignersEntry.match_options],
       bounds='11 blob flaws (magic, version, unknown hash, other message, other namespace, other key, truncation at every position, trailing byte, unknown signature algorithm, empty namespace) x namespaces= option (4 forms) x principal x validity window vs clock in -1..3'),
    Ob('sshsig_trunc', sshsig_validate, sym=dict(cut=R(0, 160)),
       fixed=dict(flaw=7, ns_opt=0, who=0, va=-1, vb=-1, now=0), timeout=250,
       functions=[SS.validate_sshsig], bounds='well-formed SSHSIG blob truncated at every byte position'),
    Ob('sshsig_signed_data', sshsig_signed_data, sym=dict(ns_i=R(0, 2), hi=R(0, 1), hashed=B), timeout=90,
       functions=[SS._signed_data], bounds='3 namespaces x sha256/sha512 x pre-hashed or not'),
]

MANIFEST = dict(
    engines='A',
    technique='bounded symbolic execution (CrossHair/z3) of the real signature-verification discipline, certificate import and SSHSIG validation under a free (unforgeable, injective) signature model',
    text='Under a free signature model plugged in below SSHKey.verify_ssh: SSHKey.verify accepts exactly the untouched (data, key, algorithm name, blob) and '
         'returns False - never raises - for every relabelled algorithm name, single-byte flip, truncation or extension; certificate import checks the CA '
         'signature over exactly the bytes before the signature field (a bit flip at any byte position, truncation, another signer or trailing data all '
         'fail), rejects unknown critical options and ignores unknown extensions whatever their data; validate_sshsig is true only for a well-formed blob '
         'signed for this message and the namespace it carries by a key that allowed-signers permits for the principal, namespace and time, and is False - '
         'never an exception - for each of 11 kinds of malformed or mismatching blob.',
    note='The real RSA/ECDSA/EdDSA/SK primitives (PyCA), X.509 and agreement with ssh-keygen are outside; certificate validity window and principal '
         'rule are checked in C04.cert_validate. Trusted: CrossHair, z3, the free signature model and stubs in props/C16.py.')
