"""C17 - Trust-file lookups follow the documented matching rules"""

import binascii
import fnmatch
import hmac
import itertools
from hashlib import sha1
from ipaddress import ip_address, ip_network

from asyncssh import auth_keys as AK
from asyncssh import known_hosts as KH
from asyncssh import pattern as P
from asyncssh.misc import OptionsParser
from asyncssh.public_key import KeyImportError

from vf.core import Ob, R, B
from vf.rt import assume, pick, conc, enc_str, notrace

ASSUMPTIONS = [
    'wildcard semantics: the pattern space is bounded (all patterns of length <= 3, thorough 4, over {a * ? [ ] ! . -}) while the matched strings '
    'are unbounded (z3 sequence theory); the reference is the OpenSSH match_pattern language (* = any string, ? = any one character, everything '
    'else literal)',
    'known_hosts / authorized_keys: key import is a stub mapping the key field to a model key id or KeyImportError (damaged key blobs themselves '
    'are C10.rsa_blob / C10.key_line); hashed names use the real HMAC-SHA1 on concrete names',
    'CIDR containment itself is delegated to the stdlib ipaddress module',
    'agreement with the ssh-keygen binary is not checked (external program)',
]

ALPHA = 'a*?[]!.-'


def ref_glob(p: str, s: str) -> bool:
    """OpenSSH match_pattern(): independent reference"""
    if not p:
        return not s
    if p[0] == '*':
        return any(ref_glob(p[1:], s[i:]) for i in range(len(s) + 1))
    if not s:
        return False
    if p[0] == '?' or p[0] == s[0]:
        return ref_glob(p[1:], s[1:])
    return False


def wildcard_concrete(p: str, s: str) -> bool:
    return P.WildcardPattern(p).matches(s) == ref_glob(p, s)


def wildcard_lang(job):
    import z3
    from vf import engine_c as E
    maxlen = job.shard['maxlen']
    q = E.Q(20000)
    s = z3.String('s')
    n = 0
    sample = None
    for L in range(maxlen + 1):
        for tup in itertools.product(ALPHA, repeat=L):
            p = ''.join(tup)
            wp = P.WildcardPattern(p)
            rx = fnmatch.translate(wp._pattern)
            impl = E.fullmatch_lang(rx)
            parts = []
            for ch in p:
                parts.append(z3.Star(E.ANY) if ch == '*' else E.ANY if ch == '?' else z3.Re(ch))
            ref = E._cat(parts)
            r, m = q.check(z3.InRe(s, impl) != z3.InRe(s, ref))
            n += 1
            if r == 'sat':
                w = E.unescape(E.model_str(m, s))
                return {'status': 'cex', 'kwargs': {'p': p, 's': w}, 'queries': q.n, 'solver_s': q.t,
                        'reason': 'language of fnmatch.translate(%r) differs from the OpenSSH wildcard language at %r' % (wp._pattern, w)}
            if r != 'unsat':
                return {'status': 'inconclusive', 'reason': 'solver %s on pattern %r' % (r, p), 'queries': q.n}
            # translator cross-check: a member and a non-member per pattern, judged by the real fnmatch
            if n % 7 == 0:
                r1, m1 = q.check(z3.InRe(s, impl), z3.Length(s) <= 6)
                if r1 == 'sat':
                    w = E.unescape(E.model_str(m1, s))
                    if not wp.matches(w):
                        return {'status': 'inconclusive', 'reason': 'translator disagrees with fnmatch on %r / %r' % (p, w)}
                    sample = {'pattern': p, 'regex': rx, 'member': w}
                r2, m2 = q.check(z3.Not(z3.InRe(s, impl)), z3.Length(s) <= 4)
                if r2 == 'sat':
                    w = E.unescape(E.model_str(m2, s))
                    if wp.matches(w):
                        return {'status': 'inconclusive', 'reason': 'translator disagrees with fnmatch on non-member %r / %r' % (p, w)}
    return {'status': 'confirmed', 'queries': q.n, 'solver_s': q.t, 'evaluations': q.n, 'nontrivial': n,
            'sample': sample, 'extra': {'patterns': n, 'string_length': 'unbounded'}}


class _StubList(P._PatternList):
    verdicts = {}

    def build_pattern(self, pattern):
        name = pattern

        class M:
            def matches(self_, *args):
                return _StubList.verdicts[name]
        return M()


def pattern_list(n: int, g0: bool, g1: bool, g2: bool, v0: bool, v1: bool, v2: bool) -> bool:
    """_PatternList: a list matches iff some positive sub-pattern matches and
    no negated one does (a negated match always excludes)."""
    n = conc(n, 1, 3)
    negs = [g0, g1, g2][:n]
    vs = [v0, v1, v2][:n]
    names = ['p0', 'p1', 'p2'][:n]
    _StubList.verdicts = dict(zip(names, vs))
    text = ','.join(('!' if g else '') + nm for g, nm in zip(negs, names))
    pl = _StubList(text)
    want = any(v and not g for g, v in zip(negs, vs)) and not any(v and g for g, v in zip(negs, vs))
    return pl.matches('x') == want


K1, K2 = 'KEY-ONE', 'KEY-TWO'


def _imp_key(data):
    if data in (K1, K2):
        return data
    raise KeyImportError('bad key')


def _imp_fail(data):
    raise KeyImportError('no')


def _hashed(name):
    salt = b'saltsaltsalt'
    h = hmac.new(salt, name.encode(), sha1).digest()
    return '|1|' + binascii.b2a_base64(salt)[:-1].decode() + '|' + binascii.b2a_base64(h)[:-1].decode()


HOSTFIELDS = ['h', 'g', 'h,g', '*', '!h,*', 'h*', '[h]:2222', '[*]:2222', '10.0.0.0/8', '!10.0.0.0/8,*',
              _hashed('h'), _hashed('[h]:2222'), '10.0.0.1', '?', 'h,!10.0.0.1', 'g,!h,h']
MARKERS = ['', '@cert-authority ', '@revoked ']
KEYS = [K1, K2, 'BROKEN']


def _ref_field_matches(field, host, addr, port):
    """sshd(8) known_hosts host field against (host, addr, port)"""
    ip = None
    for cand in (addr, host):
        if cand:
            try:
                ip = ip_address(cand)
                break
            except ValueError:
                if cand is addr:
                    break
    if addr:
        try:
            ip = ip_address(addr)
        except ValueError:
            ip = None
    names = []
    for nm in (host, addr):
        if nm:
            names.append('[%s]:%d' % (nm, port) if port else nm)
    if field.startswith('|'):
        _, magic, salt, hh = field.split('|')
        salt = binascii.a2b_base64(salt)
        hh = binascii.a2b_base64(hh)
        return any(hmac.new(salt, nm.encode(), sha1).digest() == hh for nm in names)
    pos = neg = False
    for sub in field.split(','):
        negated = sub.startswith('!')
        if negated:
            sub = sub[1:]
        if '/' in sub:                       # CIDR form (asyncssh extension): judged on the IP address
            try:
                hit = ip is not None and ip in ip_network(sub)
            except ValueError:
                hit = False
        else:
            hit = any(ref_glob(sub, nm) for nm in names)
        if hit:
            if negated:
                neg = True
            else:
                pos = True
    return pos and not neg


def _ref_lookup(lines, host, addr, port):
    def run(p):
        hk, ca, rv = [], [], []
        for marker, field, key in lines:
            if key == 'BROKEN':
                continue
            if _ref_field_matches(field, host, addr, p):
                (rv if marker == '@revoked ' else ca if marker == '@cert-authority ' else hk).append(key)
        return hk, ca, rv
    hk, ca, rv = run(port)
    if port and not (hk or ca):
        hk, ca, rv = run(None)
    return set(hk), set(ca), set(rv)


def known_hosts(m0: int, f0: int, k0: int, m1: int, f1: int, k1: int, hi: int, ai: int, port: bool, prior: int = 0) -> bool:
    """SSHKnownHosts.load + match for two lines (marker x host field x key,
    possibly unparsable) against (host, address, port): exactly the entries the
    file-format rules select - exact, wildcard, negated, CIDR, hashed and
    [host]:port forms, fallback to the plain name only when nothing matched
    with the port, markers routed to the right list, broken-key lines ignored."""
    lines = [(pick(MARKERS, m0), pick(HOSTFIELDS, f0), pick(KEYS, k0)),
             (pick(MARKERS, m1), pick(HOSTFIELDS, f1), pick(KEYS, k1))]
    host = pick(['h', 'g', '10.0.0.1', ''], hi)
    addr = pick(['', '10.0.0.1', '192.168.1.1'], ai)
    assume(host or addr)
    p = 2222 if port else None
    prior = conc(prior, 0, 2)
    text = ''.join('%s%s %s\n' % ln for ln in lines)
    saved = (KH.import_public_key, KH.import_certificate, KH.import_certificate_subject)
    KH.import_public_key, KH.import_certificate, KH.import_certificate_subject = _imp_key, _imp_fail, _imp_fail
    try:
        with notrace():
            kh = KH.SSHKnownHosts(text)
            # a parsed known_hosts object is reused for many connections: earlier lookups must not change later ones
            if prior == 1:
                kh.match('h', '10.0.0.1', p)
            elif prior == 2:
                kh.match('g', '192.168.1.1', None)
                kh.match(host, '10.0.0.1', p)
            res = kh.match(host, addr, p)
    finally:
        KH.import_public_key, KH.import_certificate, KH.import_certificate_subject = saved
    got = (set(res[0]), set(res[1]), set(res[2]))
    return got == _ref_lookup(lines, host, addr, p) and not any(res[3:])


OPT_ALPHA = 'a=,"\\ b'


def _ref_tokenize(line):
    """authorized_keys option syntax (sshd(8)): comma separated, double quotes
    protect commas/spaces, backslash escapes the next character, the option
    field ends at the first unquoted blank."""
    opts, cur, quoted, esc, i = [], '', False, False, 0
    n = len(line)
    i = 0
    while i < n:
        ch = line[i]
        if esc:
            cur += ch
            esc = False
        elif ch == '\\':
            esc = True
        elif ch == '"':
            quoted = not quoted
        elif quoted:
            cur += ch
        elif ch in ' \t':
            break
        elif ch == ',':
            opts.append(cur)
            cur = ''
        else:
            cur += ch
        i += 1
    opts.append(cur)
    if quoted or esc:
        return 'error', None
    for o in opts:
        if o.startswith('='):
            return 'error', None
    out = {}
    flags = {o for o in opts if '=' not in o}
    valued = {o.split('=', 1)[0] for o in opts if '=' in o}
    if flags & valued:
        return 'mixed', None          # same name as flag and as key=value: only "no undocumented exception" is required
    for o in opts:
        if '=' in o:
            k, v = o.split('=', 1)
            out.setdefault(k, []).append(v)
        else:
            out[o] = True
    return out, line[i:].strip() if i < n else line[n - 1:].strip() if n else ''


def options_tokenizer(n: int, i0: int, i1: int, i2: int, i3: int, i4: int, i5: int) -> bool:
    """OptionsParser._parse_options on any option string of <= 6 characters
    over {a b = , " \\ space}: same options and same remainder as the reference
    tokenizer, or ValueError for unbalanced quotes/backslash/missing name."""
    line = enc_str(OPT_ALPHA, n, [i0, i1, i2, i3, i4, i5])
    ref = _ref_tokenize(line)
    op = OptionsParser()
    try:
        rest = op._parse_options(line)
    except ValueError:
        return ref[0] in ('error', 'mixed')
    if ref[0] == 'mixed':
        return True
    if ref[0] == 'error':
        # a later option may be rejected only after earlier ones were recorded: still an error outcome
        return False
    return op.options == ref[0]


def match_options(nfrom: int, f0: bool, f1: bool, nprin: int, pa: int, pb: int, cert: int) -> bool:
    """authorized_keys entry: every from= list and every principals= list
    must match (a certificate with an empty principal list matches no
    principals= restriction; principals= is ignored only when no certificate
    is involved)."""
    e = AK._SSHAuthorizedKeyEntry.__new__(AK._SSHAuthorizedKeyEntry)
    OptionsParser.__init__(e)
    e.key = 'K'
    e.cert = None
    nfrom = conc(nfrom, 0, 2)
    nprin = conc(nprin, 0, 2)
    from_vals = [f0, f1][:nfrom]
    for v in from_vals:
        e._add_from('from', '10.0.0.0/8' if v else '192.168.0.0/16')
    plists = [pick(['alice', 'bob', 'al*,!alice', '*'], pa), pick(['alice', 'bob', 'al*,!alice', '*'], pb)][:nprin]
    for pl in plists:
        e._add_principals('principals', pl)
    certp = pick([None, [], ['alice'], ['bob', 'alfred']], cert)
    got = e.match_options('client', '10.1.2.3', certp)
    want = all(from_vals)
    if certp is not None and plists:
        for pl in plists:
            hit = False
            for pr in certp:
                pos = neg = False
                for sub in pl.split(','):
                    if sub.startswith('!'):
                        neg = neg or ref_glob(sub[1:], pr)
                    else:
                        pos = pos or ref_glob(sub, pr)
                if pos and not neg:
                    hit = True
            want = want and hit
    return got == want


def validate_first(k0: int, k1: int, k2: int, o0: bool, o1: bool, o2: bool, ca: bool, query: int) -> bool:
    """SSHAuthorizedKeys.validate returns the options of the first entry whose
    key equals the presented key and whose options match; None otherwise."""
    ak = AK.SSHAuthorizedKeys()
    keys = ['KA', 'KB']
    ents = []
    for i, (k, o) in enumerate(zip((k0, k1, k2), (o0, o1, o2))):
        e = AK._SSHAuthorizedKeyEntry.__new__(AK._SSHAuthorizedKeyEntry)
        OptionsParser.__init__(e)
        e.key = pick(keys, k)
        e.cert = None
        e.options['id'] = i
        e._add_from('from', '10.0.0.0/8' if o else '192.168.0.0/16')
        ents.append((e.key, o, i))
        (ak._ca_entries if ca else ak._user_entries).append(e)
    q = pick(keys + ['KC'], query)
    got = ak.validate(q, 'client', '10.1.2.3', None, ca)
    want = None
    for key, o, i in ents:
        if key == q and o:
            want = i
            break
    if want is None:
        return got is None
    return got is not None and got['id'] == want


OBLIGATIONS = [
    Ob('wildcard_lang', wildcard_concrete, engine='C', solver=wildcard_lang,
       shards=dict(maxlen=[3]), thorough_shards=dict(maxlen=[4]), timeout=600,
       functions=[P._BaseWildcardPattern.__init__, P._BaseWildcardPattern._matches],
       bounds='all wildcard patterns of length <= 3 (thorough 4) over {a * ? [ ] ! . -}; matched strings unbounded'),
    Ob('pattern_list', pattern_list, sym=dict(n=R(1, 3), g0=B, g1=B, g2=B, v0=B, v1=B, v2=B), timeout=90,
       functions=[P._PatternList.__init__, P._PatternList.matches],
       bounds='1..3 sub-patterns, each negated or not, each leaf verdict symbolic'),
    Ob('known_hosts', known_hosts,
       sym=dict(m0=R(0, 2), f0=R(0, 15), k0=R(0, 2), m1=R(0, 2), f1=R(0, 15), k1=R(0, 2), hi=R(0, 3), ai=R(0, 2), port=B, prior=R(0, 2)),
       shards=dict(f0=list(range(16)), k0=[0], k1=[1], m1=[0], m0=[0, 2], ai=[0, 1]),
       thorough_shards=dict(f0=list(range(16)), k0=[0, 2], m0=[0, 1, 2], m1=[0, 1, 2]),
       timeout=200, thorough_timeout=600,
       functions=[KH.SSHKnownHosts.load, KH.SSHKnownHosts._match, KH.SSHKnownHosts.match, KH._PlainHost.matches,
                  KH._HashedHost.matches, P.HostPatternList.build_pattern, P.WildcardHostPattern.matches, P.CIDRHostPattern.matches],
       bounds='2 lines: marker x 16 host-field forms (exact, list, wildcard, negated first / negated later element without wildcard characters, [host]:port, CIDR, negated CIDR, hashed, hashed with port, IP literal) x key (2 good + broken); '
              'query host in {h, g, IP literal, none} x address {none, 2 IPs} x port {default, 2222}, asked on a fresh object or after 1-2 other lookups on the same object'),
    Ob('options_tokenizer', options_tokenizer,
       sym=dict(n=R(0, 6), i0=R(0, 6), i1=R(0, 6), i2=R(0, 6), i3=R(0, 6), i4=R(0, 6), i5=R(0, 6)),
       shards=dict(n=[0, 1, 2, 3, 4], i5=[0]), thorough_shards=dict(n=[0, 1, 2, 3, 4, 5, 6], i0=list(range(7))),
       timeout=200, thorough_timeout=600,
       functions=[OptionsParser._parse_options, OptionsParser._add_option],
       bounds='all option strings of length <= 4 (thorough 6) over {a b = , " \\ space}'),
    Ob('match_options', match_options,
       sym=dict(nfrom=R(0, 2), f0=B, f1=B, nprin=R(0, 2), pa=R(0, 3), pb=R(0, 3), cert=R(0, 3)), shards=dict(cert=[0, 1, 2, 3]), timeout=400,
       functions=[AK._SSHAuthorizedKeyEntry.match_options, AK._SSHAuthorizedKeyEntry._add_from, AK._SSHAuthorizedKeyEntry._add_principals],
       bounds='0..2 from= lists, 0..2 principals= lists (4 forms incl. negation), certificate principals in {none, [], [alice], [bob, alfred]}'),
    Ob('validate_first', validate_first,
       sym=dict(k0=R(0, 1), k1=R(0, 1), k2=R(0, 1), o0=B, o1=B, o2=B, ca=B, query=R(0, 2)), timeout=150,
       functions=[AK.SSHAuthorizedKeys.validate],
       bounds='3 entries over 2 keys with matching / non-matching from=, user or CA list, query key in {KA, KB, other}'),
]

MANIFEST = dict(
    engines='AC',
    technique='re->z3 language equivalence over unbounded strings for wildcard semantics + bounded symbolic execution (CrossHair/z3) of known_hosts / authorized_keys lookup against reference matchers',
    text='Wildcard semantics: for every pattern up to length 3-4 over {a * ? [ ] ! . -} the regular language asyncssh actually matches '
         '(fnmatch.translate of its escaped pattern) is proved equal to the OpenSSH wildcard language for strings of any length (z3 sequence theory). '
         'Pattern lists: positive-and-not-negative rule with symbolic leaf verdicts. known_hosts: two-line files over 14 host-field forms, 3 markers '
         'and good/broken keys against host/address/port queries equal a reference lookup written from sshd(8) incl. port fallback, CIDR with an IP-literal '
         'host, hashed names. authorized_keys: option tokenizer equals a reference tokenizer on all strings <= 4-6 characters; from=/principals= '
         'must all match (empty certificate principal list matches no principals=); first matching entry wins.',
    note='Agreement with the ssh-keygen/ssh binaries is not checked; X.509 subject entries are not driven; key import is stubbed here (C10 covers damaged '
         'key blobs). Trusted: z3 regex theory and the re->z3 reading in vf/engine_c.py (cross-checked against fnmatch per pattern), CrossHair, reference matchers in props/C17.py.')
