"""C12 - SFTP transfers reproduce the source bytes exactly or report failure"""

import asyncio

from asyncssh import sftp as S
from asyncssh.sftp import SFTPEOFError, SFTPError, SFTPFailure

from vf.core import Ob, R, B
from vf.rt import assume, pick, conc
from vf.stubs import NullLogger

ASSUMPTIONS = [
    'inside asyncssh.sftp the name `asyncio` is replaced by a shim: ensure_future wraps the coroutine in a lazy task, wait(FIRST_COMPLETED) '
    'completes a solver-chosen pending task (one per call; or two at once in the wait2 variants) - every order in which outstanding requests can '
    'be answered; the server side (handler.read/write, file objects) is a model returning a solver-chosen short count of a concrete source',
    'source content is concrete distinct bytes so that misplaced data is visible; sizes, offsets, block size, max_requests are small (sharded)',
    'local-file glue of get/put (opening local files, glob) is outside: the check drives the parallel reader/writer/copier, SFTPClientFile and the recursive copy driver SFTPClient._copy on an in-memory model file system (directories, files, symlinks)',
]

SRC = bytes(range(65, 65 + 16))


class LazyTask:
    def __init__(self, coro):
        self.coro = coro
        self._res = None
        self._exc = None
        self.done_ = False
        self.cancelled_ = False

    def run(self):
        try:
            self.coro.send(None)
        except StopIteration as e:
            self._res = e.value
        except Exception as e:
            self._exc = e
        else:
            raise AssertionError('model task suspended')
        self.done_ = True

    def result(self):
        if self.cancelled_:
            raise asyncio.CancelledError()
        if self._exc is not None:
            raise self._exc
        return self._res

    def cancel(self):
        if not self.done_:
            self.cancelled_ = True
            self.coro.close()


class Shim:
    """asyncio replacement for the duration of one harness run"""
    FIRST_COMPLETED = 'FIRST_COMPLETED'

    def __init__(self, choices, two):
        self.choices = choices
        self.pos = 0
        self.two = two
        self.max_pending = 0
        self.order = []

    def _choose(self, n):
        c = self.choices[self.pos] if self.pos < len(self.choices) else 0
        self.pos += 1
        for i in range(n - 1):
            if c == i:
                return i
        return n - 1

    def ensure_future(self, coro):
        t = LazyTask(coro)
        self.order.append(t)
        return t

    async def wait(self, pending, return_when=None):
        pend = [t for t in self.order if t in pending]        # creation order: deterministic
        if len(pend) > self.max_pending:
            self.max_pending = len(pend)
        i = self._choose(len(pend))
        done = [pend.pop(i)]
        if self.two and pend:
            j = self._choose(len(pend))
            done.append(pend.pop(j))
        for t in done:
            t.run()
        return set(done), set(pend)

    def __getattr__(self, name):
        return getattr(asyncio, name)


def drive(coro):
    try:
        coro.send(None)
    except StopIteration as e:
        return ('ret', e.value)
    except (SFTPError, OSError) as e:
        return ('err', e)
    raise AssertionError('suspended')


class Handler:
    """SFTP server model seen through SFTPClientHandler.read/write"""

    def __init__(self, flen, shorts, err_at=-1):
        self.flen = flen
        self.shorts = shorts
        self.si = 0
        self.calls = 0
        self.err_at = err_at
        self.reads = []
        self.writes = []
        self.limits = S.SFTPLimits(0, 1 << 20, 1 << 20, 0)
        self.logger = NullLogger()

    def _short(self, length):
        s = self.shorts[self.si] if self.si < len(self.shorts) else length
        self.si += 1
        return s

    async def read(self, handle, offset, length):
        k = self.calls
        self.calls += 1
        if k == self.err_at:
            raise SFTPFailure('model error')
        if offset >= self.flen:
            raise SFTPEOFError()
        n = min(length, self._short(length), self.flen - offset)
        self.reads.append((offset, length))
        return SRC[offset:offset + n], False

    async def write(self, handle, offset, data):
        k = self.calls
        self.calls += 1
        if k == self.err_at:
            raise SFTPFailure('model error')
        self.writes.append((offset, bytes(data)))
        return len(data)


def _apply(writes, size):
    buf = bytearray(size)
    mark = [0] * size
    for off, data in writes:
        for i, b in enumerate(data):
            if off + i >= size:
                return None, None
            buf[off + i] = b
            mark[off + i] += 1
    return bytes(buf), mark


def reader(size: int, off: int, bs: int, mr: int, flen: int, two: bool, err: int,
           c0: int, c1: int, c2: int, c3: int, c4: int, c5: int,
           s0: int, s1: int, s2: int, s3: int, s4: int, s5: int) -> bool:
    """_SFTPFileReader: for any completion order, short-read pattern and EOF
    position the result is exactly source[off : min(off+size, file length)];
    if any block fails the call raises; never more than max_requests
    outstanding; no read outside the requested range."""
    sh = Shim([c0, c1, c2, c3, c4, c5], two)
    h = Handler(flen, [s0, s1, s2, s3, s4, s5], err)
    saved = S.asyncio
    S.asyncio = sh
    try:
        r = drive(S._SFTPFileReader(bs, mr, h, b'h', off, size).run())
    finally:
        S.asyncio = saved
    if sh.max_pending > mr:
        return False
    for o, l in h.reads:
        if o < off or o + l > off + size or l <= 0:
            return False
    if 0 <= err < h.calls:
        return r[0] == 'err'
    if r[0] != 'ret':
        return False
    return r[1] == SRC[off:min(off + size, flen)]


def writer(n: int, off: int, bs: int, mr: int, two: bool, err: int,
           c0: int, c1: int, c2: int, c3: int, c4: int, c5: int) -> bool:
    """_SFTPFileWriter: every byte of the data is written exactly once at its
    absolute offset, for any completion order; a failed block raises."""
    sh = Shim([c0, c1, c2, c3, c4, c5], two)
    h = Handler(0, [], err)
    data = SRC[:n]
    saved = S.asyncio
    S.asyncio = sh
    try:
        r = drive(S._SFTPFileWriter(bs, mr, h, b'h', off, data).run())
    finally:
        S.asyncio = saved
    if sh.max_pending > mr:
        return False
    if 0 <= err < h.calls:
        return r[0] == 'err'
    if r[0] != 'ret':
        return False
    buf, mark = _apply(h.writes, off + n)
    if buf is None:
        return False
    return buf[off:] == data and all(m == 1 for m in mark[off:]) and all(m == 0 for m in mark[:off])


class SrcFile:
    def __init__(self, h):
        self.h = h

    async def read(self, size, offset):
        try:
            data, _ = await self.h.read(b'h', offset, size)
        except SFTPEOFError:
            return b''
        return data

    async def close(self):
        pass

    def request_ranges(self, offset, length):
        raise AssertionError('not sparse')


class DstFile:
    def __init__(self, h):
        self.h = h

    async def write(self, data, offset):
        return await self.h.write(b'h', offset, data)

    async def close(self):
        pass


class FS:
    def __init__(self, f):
        self.f = f

    async def open(self, path, mode, block_size=0):
        return self.f


def copier(total: int, flen: int, bs: int, mr: int, two: bool,
           c0: int, c1: int, c2: int, c3: int, c4: int, c5: int,
           s0: int, s1: int, s2: int, s3: int, s4: int, s5: int) -> bool:
    """_SFTPFileCopier (the engine of get/put/copy), non-sparse: destination
    == source[:announced size] on success; if the source ends before its
    announced size the operation raises; never reports success otherwise."""
    sh = Shim([c0, c1, c2, c3, c4, c5], two)
    hs = Handler(flen, [s0, s1, s2, s3, s4, s5])
    hd = Handler(0, [])
    saved = S.asyncio
    S.asyncio = sh
    try:
        cp = S._SFTPFileCopier(bs, mr, total, False, FS(SrcFile(hs)), FS(DstFile(hd)), b's', b'd', None)
        r = drive(cp.run())
    finally:
        S.asyncio = saved
    if sh.max_pending > mr:
        return False
    if flen < total:
        return r[0] == 'err'
    if r[0] != 'ret':
        return False
    buf, mark = _apply(hd.writes, total)
    if buf is None:
        return False
    return buf == SRC[:total] and all(m == 1 for m in mark)


class TreeFS:
    """In-memory file system seen through the _SFTPFSProtocol the copy driver uses.
    nodes: path -> ('dir',) | ('file', content) | ('link', target)"""

    def __init__(self, nodes, shorts=()):
        self.nodes = dict(nodes)
        self.writes = {}
        self.shorts = list(shorts)
        self.si = 0
        self.limits = S.SFTPLimits(0, 1 << 20, 1 << 20, 0)

    def _resolve(self, path, depth=0):
        node = self.nodes.get(path)
        if node is not None and node[0] == 'link' and depth < 4:
            t = node[1]
            if not t.startswith(b'/'):
                t = path.rsplit(b'/', 1)[0] + b'/' + t
            return self._resolve(t, depth + 1)
        return node

    def _attrs(self, node):
        if node is None:
            raise S.SFTPNoSuchFile('no such file')
        if node[0] == 'dir':
            return S.SFTPAttrs(type=S.FILEXFER_TYPE_DIRECTORY, size=64, permissions=0o755)
        if node[0] == 'link':
            return S.SFTPAttrs(type=S.FILEXFER_TYPE_SYMLINK, size=len(node[1]), permissions=0o777)
        return S.SFTPAttrs(type=S.FILEXFER_TYPE_REGULAR, size=len(node[1]), permissions=0o644)

    async def stat(self, path, *, follow_symlinks=True):
        return self._attrs(self._resolve(path) if follow_symlinks else self.nodes.get(path))

    async def lstat(self, path):
        return self._attrs(self.nodes.get(path))

    async def isdir(self, path):
        n = self._resolve(path)
        return n is not None and n[0] == 'dir'

    async def mkdir(self, path, *a):
        self.nodes[path] = ('dir',)

    async def readlink(self, path):
        return self.nodes[path][1]

    async def symlink(self, target, path):
        self.nodes[path] = ('link', target)

    async def setstat(self, path, attrs, **k):
        pass

    async def scandir(self, path):
        for p in sorted(self.nodes):
            if p.startswith(path + b'/') and b'/' not in p[len(path) + 1:]:
                yield S.SFTPName(p[len(path) + 1:], attrs=self._attrs(self.nodes[p]))

    async def open(self, path, mode, block_size=0):
        fs = self

        class F:
            async def read(self, size, offset):
                node = fs._resolve(path)
                if node is None or node[0] != 'file':
                    raise S.SFTPFailure('not a file')
                n = fs.shorts[fs.si] if fs.si < len(fs.shorts) else size
                fs.si += 1
                return node[1][offset:offset + min(size, n)]

            async def write(self, data, offset):
                fs.writes.setdefault(path, []).append((offset, bytes(data)))
                return len(data)

            async def close(self):
                pass

        if 'r' in mode:
            node = self._resolve(path)
            if node is None or node[0] != 'file':
                raise S.SFTPNoSuchFile('no such file')
        else:
            self.writes.setdefault(path, [])
        return F()


TARGETS = [b'f', b'/s/f', b'sub/g', b'nowhere']


def copy_tree(nf: int, ng: int, ti: int, follow: bool, top: int, bs: int, mr: int, two: bool, preserve: bool,
              c0: int, c1: int, c2: int, s0: int, s1: int, s2: int) -> bool:
    """The recursive copy driver behind get/put/copy on a model tree
    /s = {f: file, l: symlink, sub/: {g: file}}: every regular file, and with
    follow_symlinks every link to a regular file, arrives with exactly the bytes
    of the file it names; without follow_symlinks links are recreated with their
    target; a dangling link is an error, never a silently wrong file."""
    f, g = SRC[:nf], SRC[8:8 + ng]
    target = pick(TARGETS, ti)
    nodes = {b'/s': ('dir',), b'/s/f': ('file', f), b'/s/l': ('link', target), b'/s/sub': ('dir',), b'/s/sub/g': ('file', g)}
    src = TreeFS(nodes, [s0, s1, s2])
    dst = TreeFS({})
    cl = S.SFTPClient.__new__(S.SFTPClient)

    class H:
        version = 3
        logger = NullLogger()
        supports_copy_data = False

    cl._handler = H()
    cl._path_encoding = None
    cl._path_errors = 'strict'
    cl._cwd = None
    sh = Shim([c0, c1, c2], two)
    saved = S.asyncio
    S.asyncio = sh
    spath = pick([b'/s', b'/s/l', b'/s/f'], top)
    try:
        # the attributes the public entry points pass in come from lstat (glob / scandir) or stat (a directly named path)
        r = drive(cl._copy(src, dst, spath, b'/d', src._attrs(src.nodes[spath]), preserve, True, follow, False, bs, mr, None, None, False))
    finally:
        S.asyncio = saved
    real = src._resolve(b'/s/l')

    def content(path):
        w = dst.writes.get(path)
        if w is None:
            return None
        size = max([o + len(d) for o, d in w] + [0])
        buf, mark = _apply(w, size)
        if buf is None or not all(m == 1 for m in mark):
            return b'<holes or double writes>'
        return buf

    def link_ok(dpath):
        """what must be at dpath for the source entry /s/l"""
        if not follow:
            return dst.nodes.get(dpath) == ('link', target) and dpath not in dst.writes
        if real is None:
            return False                       # dangling: must have failed
        if real[0] == 'file':
            return content(dpath) == real[1]
        return True

    if spath == b'/s/f':
        return r[0] == 'ret' and content(b'/d') == f
    if spath == b'/s/l':
        if follow and real is None:
            return r[0] == 'err'
        if follow and real[0] == 'dir':
            return r[0] == 'ret'
        return r[0] == 'ret' and link_ok(b'/d')
    if follow and real is None:
        return r[0] == 'err'
    if r[0] != 'ret':
        return False
    if content(b'/d/f') != f or content(b'/d/sub/g') != g:
        return False
    if dst.nodes.get(b'/d') != ('dir',) or dst.nodes.get(b'/d/sub') != ('dir',):
        return False
    return link_ok(b'/d/l')


RANGES = [[], [(0, 6)], [(0, 2), (4, 2)], [(1, 3)], [(0, 1), (2, 1), (5, 1)], [(3, 3)]]


class SparseSrc(SrcFile):
    def __init__(self, h, ranges):
        super().__init__(h)
        self.ranges = ranges

    async def request_ranges(self, offset, length):
        for o, l in self.ranges:
            yield o, l


def sparse_copy(ri: int, bs: int, mr: int, two: bool,
                c0: int, c1: int, c2: int, c3: int, c4: int, c5: int,
                s0: int, s1: int, s2: int, s3: int, s4: int, s5: int) -> bool:
    """Sparse copy: for any hole layout of a 6-byte file every byte inside a
    data range is copied exactly once to its own offset, nothing is written
    into a hole, whatever the completion order and short reads."""
    ranges = pick(RANGES, ri)
    sh = Shim([c0, c1, c2, c3, c4, c5], two)
    hs = Handler(6, [s0, s1, s2, s3, s4, s5])
    hd = Handler(0, [])
    saved = S.asyncio
    S.asyncio = sh
    try:
        cp = S._SFTPFileCopier(bs, mr, 6, True, FS(SparseSrc(hs, ranges)), FS(DstFile(hd)), b's', b'd', None)
        r = drive(cp.run())
    finally:
        S.asyncio = saved
    if r[0] != 'ret' or sh.max_pending > mr:
        return False
    buf, mark = _apply(hd.writes, 6)
    if buf is None:
        return False
    for i in range(6):
        inside = any(o <= i < o + l for o, l in ranges)
        if inside and (mark[i] != 1 or buf[i] != SRC[i]):
            return False
        if not inside and mark[i] != 0:
            return False
    return True


TEXTS = ['ab', 'é', '€x', 'z']


def file_offsets(enc: int, k0: int, k1: int, k2: int, append: bool, seek_to: int) -> bool:
    """SFTPClientFile position tracking: sequential write()s (text or bytes)
    land back to back at byte offsets, write returns the number of bytes,
    tell() agrees; after seek(n) a write goes to n; in append mode the
    position is unknown (None) after a write."""
    encoding = pick([None, 'utf-8', 'utf-16-le'], enc)
    h = Handler(0, [])
    f = S.SFTPClientFile.__new__(S.SFTPClientFile)
    f._handler = h
    f._handle = b'h'
    f._appending = append
    f._encoding = encoding
    f._errors = 'strict'
    f._offset = None if append else 0
    f.read_len = 0
    f.write_len = 0
    f._max_requests = 1
    items = [pick(TEXTS, k0), pick(TEXTS, k1), pick(TEXTS, k2)]
    pos = 0
    expect = []
    for i, t in enumerate(items):
        if i == 1 and seek_to >= 0 and not append:
            r = drive(f.seek(seek_to))
            if r != ('ret', seek_to):
                return False
            pos = seek_to
        raw = t.encode(encoding) if encoding else t.encode('utf-8')
        arg = t if encoding else raw
        r = drive(f.write(arg))
        if r != ('ret', len(raw)):
            return False
        expect.append((0 if append else pos, raw))
        pos += len(raw)
        if append:
            if f._offset is not None:
                return False
        else:
            if drive(f.tell()) != ('ret', pos):
                return False
    return h.writes == expect


_C = dict(c0=R(0, 2), c1=R(0, 2), c2=R(0, 2), c3=R(0, 2), c4=R(0, 2), c5=R(0, 2))
_S = dict(s0=R(1, 3), s1=R(1, 3), s2=R(1, 3), s3=R(1, 3), s4=R(1, 3), s5=R(1, 3))

OBLIGATIONS = [
    Ob('reader', reader,
       sym=dict(two=B, err=R(-1, 3), **_C, **_S),
       shards=dict(size=[0, 3, 5], off=[0, 2], bs=[1, 2], mr=[2, 3], flen=[4, 9]),
       thorough_shards=dict(size=[0, 1, 2, 3, 4, 5, 6, 7], off=[0, 1, 2], bs=[1, 2, 3], mr=[1, 2, 3], flen=[0, 4, 7, 9]),
       pre=['s4 == 1 and s5 == 1 and c5 == 0'],
       timeout=150, thorough_timeout=400,
       functions=[S._SFTPParallelIO._start_tasks, S._SFTPParallelIO.iter, S._SFTPParallelIO._start_task,
                  S._SFTPFileReader.run_task, S._SFTPFileReader.run],
       bounds='requested size {0,3,5} (thorough 0..7) at offset {0,2} (0..2), block size 1..2 (1..3), max_requests 2..3 (1..3), file length {4,9} '
              '({0,4,7,9}); completion order: 6 symbolic choices among <= 3 pending, one or two completions per wait; short-read counts 1..3; one '
              'optional failing request'),
    Ob('writer', writer,
       sym=dict(two=B, err=R(-1, 3), **_C),
       shards=dict(n=[0, 1, 5], off=[0, 2], bs=[1, 2], mr=[1, 3]),
       thorough_shards=dict(n=[0, 1, 2, 3, 4, 5, 6, 7, 8], off=[0, 1, 2], bs=[1, 2, 3], mr=[1, 2, 3]),
       timeout=150, thorough_timeout=400,
       functions=[S._SFTPFileWriter.run_task, S._SFTPFileWriter.run, S._SFTPParallelIO.iter],
       bounds='data length {0,1,5} (thorough 0..8), offset {0,2}, block size 1..3, max_requests 1..3; any completion order; one optional failing block'),
    Ob('copier', copier,
       sym=dict(two=B, **_C, **_S),
       shards=dict(total=[0, 4, 5], flen=[3, 5, 8], bs=[1, 2], mr=[1, 3]),
       thorough_shards=dict(total=[0, 1, 2, 3, 4, 5, 6, 7], flen=[0, 3, 5, 8], bs=[1, 2, 3], mr=[1, 2, 3]),
       pre=['s4 == 1 and s5 == 1 and c5 == 0'],
       timeout=150, thorough_timeout=400,
       functions=[S._SFTPFileCopier.run_task, S._SFTPFileCopier.run, S._SFTPParallelIO.iter],
       bounds='announced size {0,4,5} (thorough 0..7) vs real source length {3,5,8}; block size 1..3, max_requests 1..3; any completion order and short reads; non-sparse (sparse layouts: sparse_copy)'),
    Ob('copy_tree', copy_tree,
       sym=dict(nf=R(0, 4), preserve=B, c0=R(0, 1), s0=R(1, 2), s1=R(1, 2)),
       shards=dict(ti=[0, 1, 2, 3], follow=[False, True], top=[0, 1, 2], bs=[2], mr=[2]),
       fixed=dict(ng=1, two=False, c1=0, c2=0, s2=1),
       thorough_sym=dict(ng=R(0, 2), two=B, c1=R(0, 1)),
       thorough_shards=dict(ti=[0, 1, 2, 3], follow=[False, True], top=[0, 1, 2], bs=[1, 2, 3], mr=[1, 3]),
       timeout=250, thorough_timeout=900,
       functions=[S.SFTPClient._copy, S._SFTPFileCopier.run, S._SFTPFileCopier.run_task, S._SFTPParallelIO.iter],
       bounds='model tree /s={f (0..4 bytes), l -> {f, /s/f, sub/g, dangling}, sub/{g (1 byte; thorough 0..2)}}; copy of the tree, of the link or of the file; '
              'follow_symlinks on/off, preserve on/off; block size 2 (thorough 1..3), max_requests 2 (1,3); first completion choice and first two short-read counts symbolic'),
    Ob('sparse_copy', sparse_copy, sym=dict(ri=R(0, 5), two=B, **_C, **_S),
       shards=dict(bs=[1, 2], mr=[1, 3]), thorough_shards=dict(bs=[1, 2, 3], mr=[1, 2, 3], ri=[0, 1, 2, 3, 4, 5]),
       pre=['s4 == 1 and s5 == 1 and c5 == 0'], timeout=250, thorough_timeout=600,
       functions=[S._SFTPFileCopier.run, S._SFTPFileCopier.run_task, S._SFTPParallelIO.iter],
       bounds='6-byte sparse source with 6 hole layouts (none, full, two ranges, inner range, three 1-byte ranges, tail), block size 1..2 (1..3), max_requests {1,3}, any completion order / short reads'),
    Ob('file_offsets', file_offsets,
       sym=dict(enc=R(0, 2), k0=R(0, 3), k1=R(0, 3), k2=R(0, 3), append=B, seek_to=R(-1, 3)),
       shards=dict(enc=[0, 1, 2]), timeout=150,
       functions=[S.SFTPClientFile.write, S.SFTPClientFile.seek, S.SFTPClientFile.tell],
       bounds='three sequential writes of strings from a 4-string non-ASCII alphabet, bytes/utf-8/utf-16-le, optional seek(0..3) before the second, append or not'),
]

MANIFEST = dict(
    engines='A',
    technique='bounded symbolic execution (CrossHair/z3) of the real parallel SFTP reader/writer/copier under a solver-chosen completion order and short-read schedule',
    text='Bounded symbolic verification of the SFTP block scheduler and reassembly: the real _SFTPParallelIO/_SFTPFileReader/_SFTPFileWriter/'
         '_SFTPFileCopier run against a server model with asyncio.wait replaced by a solver-chosen completion order (one or two completions per '
         'wait), solver-chosen short-read counts, EOF inside the requested range and one optional failing request: the result equals the source '
         'bytes over the requested range, every byte is written exactly once at its offset, failures and a source shorter than announced raise, '
         'no request leaves the range, at most max_requests are outstanding; SFTPClientFile tracks byte offsets across text/bytes writes and seeks; the recursive copy driver on an in-memory tree (files, directories, symlinks, follow_symlinks on/off) delivers exactly the bytes of the file each entry names.',
    note='Small sizes (<= 8 bytes, block size <= 3, <= 3 outstanding, 6 scheduling choices) sharded concretely; local file '
         'glue of get/put/glob and real servers are outside. Trusted: CrossHair, z3, the asyncio shim and server model in props/C12.py.')
