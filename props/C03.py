"""C03 - Key exchange binds the whole negotiation; no silent downgrade"""

from asyncssh import connection as C
from asyncssh import kex_dh as KD
from asyncssh.misc import KeyExchangeFailed, ProtocolError, DisconnectError
from asyncssh.packet import SSHPacket, UInt32, String, Byte, Boolean, NameList, MPInt

from vf.core import Ob, R, B
from vf.rt import assume, pick, conc, cb, enc_bytes
from vf.stubs import mkconn, MiniLoop, NullLogger
from props.connlib import frame, pframe, instrument, deliver
from props.C11 import Env, FakeKex, _conn as _rekey_conn

ASSUMPTIONS = [
    'hash and signature are free models: the hash object records exactly the bytes fed to it (digest = those bytes, injective), a signature verifies iff '
    'it equals b"SIG"+key id+message; "any edit of a covered field changes H" then reduces to: the covered field is fed to the hash verbatim and '
    'unambiguously (length-prefixed) - which is what the obligations check; collision resistance of the real hash is assumed',
    'Diffie-Hellman arithmetic (the DH class) is a stub returning fixed values; only the range checks and message discipline are under test; '
    'ECDH / curve25519 / sntrup / ML-KEM point validation happens in C libraries and is not examined',
    'two live endpoints are not run: agreement of both sides is argued from "both hash the same verbatim bytes"',
]

NAMES = [b'a1', b'b2', b'c3', b'd4']


def _list(n, i0, i1, i2):
    out = []
    for k, i in enumerate((i0, i1, i2)):
        if k < n:
            out.append(pick(NAMES, i))
    return out


def choose_alg(server: bool, n: int, i0: int, i1: int, i2: int, m: int, j0: int, j1: int, j2: int) -> bool:
    """_choose_alg: the result is the first entry of the *client's* list that
    the server also lists (whichever role we are); no common entry is
    KeyExchangeFailed."""
    local = _list(n, i0, i1, i2)
    remote = _list(m, j0, j1, j2)
    cls = C.SSHServerConnection if server else C.SSHClientConnection
    conn = cls.__new__(cls)          # _choose_alg only reads the role
    conn._server = server
    client_l, server_l = (remote, local) if server else (local, remote)
    want = None
    for a in client_l:
        if a in server_l:
            want = a
            break
    try:
        got = conn._choose_alg('x', local, remote)
    except KeyExchangeFailed:
        return want is None
    return got == want


class _KP:
    def __init__(self, alg):
        self.algorithm = alg
        self.sig = alg

    def set_sig_algorithm(self, alg):
        self.sig = alg


def host_key_choice(n: int, i0: int, i1: int, i2: int, m: int, j0: int, j1: int, j2: int) -> bool:
    """choose_server_host_key: the host key that will sign the exchange is the
    one for the first algorithm in the *client's* server_host_key_algs list
    that the server has a key for (RFC 4253 7.1), signing with exactly that
    algorithm; none in common -> no key (the caller fails the exchange)."""
    peer = _list(n, i0, i1, i2)
    have = _list(m, j0, j1, j2)
    conn = C.SSHServerConnection.__new__(C.SSHServerConnection)
    conn._server = True
    conn._server_host_key = None
    conn._server_host_keys = {}
    for a in have:                       # insertion order = the server's own preference order
        if a not in conn._server_host_keys:
            conn._server_host_keys[a] = _KP(b'base-' + a if a == b'b2' else a)
    want = None
    for a in peer:
        if a in conn._server_host_keys:
            want = a
            break
    got = conn.choose_server_host_key(peer)
    if want is None:
        return got is False and conn._server_host_key is None
    kp = conn._server_host_key
    return got is True and kp is conn._server_host_keys[want] and kp.sig == want


def negotiate(server: bool, e_cs: int, e_sc: int, m_cs: int, m_sc: int, c_cs: int, c_sc: int, ours: int) -> bool:
    """_process_kexinit: each of the six per-direction algorithms is chosen
    from the peer list *for that direction*; the received KEXINIT payload is
    stored verbatim (all fields up to the reserved word) for the exchange hash."""
    loop = MiniLoop()
    log = []
    lists = [[b'a1'], [b'b2'], [b'a1', b'b2'], [b'b2', b'a1'], [b'c3', b'b2']]
    peer = dict(e_cs=pick(lists, e_cs), e_sc=pick(lists, e_sc), m_cs=pick(lists, m_cs), m_sc=pick(lists, m_sc),
                c_cs=pick(lists, c_cs), c_sc=pick(lists, c_sc))
    mine = pick([[b'a1', b'b2'], [b'b2', b'a1'], [b'b2']], ours)
    with Env(loop, log):
        conn, out = _rekey_conn(server, loop)
        conn._kexinit_sent = True
        conn._enc_algs = conn._mac_algs = conn._cmp_algs = list(mine)
        body = bytes(range(16)) + NameList([b'k1']) + NameList([b'h1']) + NameList(peer['e_cs']) + NameList(peer['e_sc']) + \
            NameList(peer['m_cs']) + NameList(peer['m_sc']) + NameList(peer['c_cs']) + NameList(peer['c_sc']) + \
            NameList([]) * 2 + Boolean(False) + UInt32(0)
        deliver(conn, pframe(conn, Byte(20) + body))
        loop.run(30)

    def first(cl, sl):
        for a in cl:
            if a in sl:
                return a
        return None

    want = {}
    for k in peer:
        cl, sl = (peer[k], mine) if server else (mine, peer[k])
        want[k] = first(cl, sl)
    if any(v is None for v in want.values()):
        return len(out.closed) == 1 and isinstance(out.closed[0], KeyExchangeFailed)
    if out.closed or out.internal or loop.exceptions:
        return False
    got = dict(e_cs=conn._enc_alg_cs, e_sc=conn._enc_alg_sc, m_cs=conn._mac_alg_cs, m_sc=conn._mac_alg_sc,
               c_cs=conn._cmp_alg_cs, c_sc=conn._cmp_alg_sc)
    stored = conn._client_kexinit if server else conn._server_kexinit
    return got == want and stored == Byte(20) + body


def kexinit_trailing(server: bool, extra: int) -> bool:
    """KEXINIT with bytes after the reserved word is rejected (nothing the hash does not cover is accepted)"""
    loop = MiniLoop()
    log = []
    extra = conc(extra, 1, 3)
    with Env(loop, log):
        conn, out = _rekey_conn(server, loop)
        conn._kexinit_sent = True
        body = bytes(16) + NameList([b'k1']) + NameList([b'h1']) + NameList([b'e1']) * 2 + NameList([b'm1']) * 2 + \
            NameList([b'none']) * 2 + NameList([]) * 2 + Boolean(False) + UInt32(0) + bytes(extra)
        deliver(conn, pframe(conn, Byte(20) + body))
        loop.run(30)
    return len(out.closed) + out.internal >= 1 and 'kex-start' not in log and conn._kex is None


def version_verbatim(server: bool, ws: int, banner: bool) -> bool:
    """The peer's identification string enters the exchange hash exactly as
    received (minus the single CR LF): trailing blanks/tabs/extra CR are kept,
    so an on-path edit of the line changes H on this side."""
    conn = mkconn(server)
    out = instrument(conn)
    sent = []
    conn._send = lambda data: sent.append(data)
    conn._send_kexinit = lambda: sent.append(b'KEXINIT')
    tail = pick([b'', b' ', b'\t', b' \r', b'\r ', b'  '], ws)
    line = b'SSH-2.0-Peer_1.0' + tail
    data = (b'hello banner\r\n' if banner and not server else b'') + line + b'\r\n'
    deliver(conn, data)
    if out.closed or out.internal:
        return False
    got = conn._client_version if server else conn._server_version
    prefix = conn.get_hash_prefix()
    mine = conn._server_version if server else conn._client_version
    want_prefix = String(line) + String(mine) if server else String(mine) + String(line)
    return got == line and prefix[:len(want_prefix)] == want_prefix


class RecHash:
    """free hash: digest() is the exact concatenation of what was fed"""

    def __init__(self):
        self.data = b''

    def update(self, d):
        self.data += bytes(d)

    def digest(self):
        return self.data


class ModelKey:
    def __init__(self, kid):
        self.kid = kid
        self.public_data = kid

    def verify(self, data, sig):
        return sig == b'SIG' + self.kid + data

    def sign(self, data):
        return b'SIG' + self.kid + data


class FakeDH:
    def __init__(self, g, p):
        self.g, self.p = g, p

    def get_public(self):
        return 4

    def get_shared(self, peer):
        return 9


def _kexdh(server, conn_over=None, gex=False):
    conn = mkconn(server)
    conn._client_version = b'SSH-2.0-C'
    conn._server_version = b'SSH-2.0-S'
    conn._client_kexinit = b'\x14CLIENTKEXINIT'
    conn._server_kexinit = b'\x14SERVERKEXINIT'
    log = []
    conn.send_packet = lambda t, *a, **k: log.append(('send', t, b''.join(a)))
    conn.send_newkeys = lambda k, h: log.append(('newkeys', k, h))
    cls = KD._KexDHGex if gex else KD._KexDH
    k = cls.__new__(cls)
    k.algorithm = b'dh'
    k._conn = conn
    k._logger = NullLogger()
    k._hash_alg = RecHash
    k._dh = None
    k._g, k._p, k._e, k._f = 5, 23, 0, 0
    k._gex_data = b''
    k._pref_size = k._max_size = None
    return k, conn, log


def hash_layout(e: int, f: int, gex: bool, kslen: int) -> bool:
    """Exchange hash input == String(V_C) String(V_S) String(I_C) String(I_S)
    String(K_S) [gex request and group] mpint(e) mpint(f) K - every covered
    field length-prefixed and in RFC 4253 section 8 / RFC 4419 order."""
    kslen = conc(kslen, 0, 3)
    vals = [0, 1, 127, 128, 255, 256, 32767, 32768, 65535, 70000]
    e, f = pick(vals, e), pick(vals, f)
    k, conn, log = _kexdh(True, gex=cb(gex))
    k._e, k._f = e, f
    ks = b'KS!'[:kslen]
    if gex:
        k._gex_data = UInt32(1024) + UInt32(2048) + UInt32(8192) + MPInt(23) + MPInt(5)
    K = MPInt(9)
    h = k._compute_hash(ks, K)
    want = String(b'SSH-2.0-C') + String(b'SSH-2.0-S') + String(b'\x14CLIENTKEXINIT') + String(b'\x14SERVERKEXINIT') + \
        String(ks) + (k._gex_data if gex else b'') + MPInt(e) + MPInt(f) + K
    return h == want


def client_verify(f: int, sigflaw: int, keyok: bool, trailing: bool) -> bool:
    """Client side of DH: NEWKEYS is sent only after the host key was
    accepted by validate_server_host_key AND that key's signature over exactly
    this exchange hash verified AND f is in [1, p-1]; otherwise the exchange
    fails and no keys are taken into use."""
    saved = KD.DH
    KD.DH = FakeDH
    try:
        k, conn, log = _kexdh(False)
        k._dh = FakeDH(5, 23)
        k._e = 4
        hostkey = ModelKey(b'HK')
        validated = []

        def validate(data):
            validated.append(data)
            if not keyok:
                raise C.HostKeyNotVerifiable('untrusted')
            return hostkey

        conn.validate_server_host_key = validate
        f = pick([0, 1, 7, 22, 23, 24, -1], f)
        # what an honest server would sign
        k2, _, _ = _kexdh(False)
        k2._e, k2._f = 4, f
        try:
            H = k2._compute_hash(b'HK', MPInt(9))
        except Exception:
            H = b''
        kind = pick(['ok', 'otherkey', 'otherhash', 'empty', 'trunc'], sigflaw)
        sig = b'SIG' + b'HK' + H
        if kind == 'otherkey':
            sig = b'SIG' + b'XX' + H
        elif kind == 'otherhash':
            sig = b'SIG' + b'HK' + H + b'x'
        elif kind == 'empty':
            sig = b''
        elif kind == 'trunc':
            sig = sig[:-1]
        body = String(b'HK') + MPInt(f) + String(sig) + (b'\0' if trailing else b'')
        try:
            k.process_packet(31, 0, SSHPacket(body))
            failed = False
        except (DisconnectError, C.PacketDecodeError):
            failed = True
    finally:
        KD.DH = saved
    newkeys = [x for x in log if x[0] == 'newkeys']
    ok = keyok and kind == 'ok' and 1 <= f <= 22 and not trailing
    if ok:
        return not failed and len(newkeys) == 1 and newkeys[0][2] == H and validated == [b'HK']
    return failed and not newkeys


def server_range(e: int, trailing: bool) -> bool:
    """Server side of DH: e outside [1, p-1] (or a malformed init) is refused
    and nothing is signed or sent; otherwise exactly one reply signed over the
    hash of this exchange, then NEWKEYS."""
    saved = KD.DH
    KD.DH = FakeDH
    try:
        k, conn, log = _kexdh(True)
        hk = ModelKey(b'HK')
        conn.get_server_host_key = lambda: hk
        e = pick([0, 1, 7, 22, 23, 24, -1], e)
        try:
            k.process_packet(30, 0, SSHPacket(MPInt(e) + (b'\0' if trailing else b'')))
            failed = False
        except (DisconnectError, C.PacketDecodeError):
            failed = True
    finally:
        KD.DH = saved
    sends = [x for x in log if x[0] == 'send']
    newkeys = [x for x in log if x[0] == 'newkeys']
    if 1 <= e <= 22 and not trailing:
        if failed or len(sends) != 1 or len(newkeys) != 1:
            return False
        H = newkeys[0][2]
        p = SSHPacket(sends[0][2])
        ks, f, sig = p.get_string(), p.get_mpint(), p.get_string()
        return ks == b'HK' and sig == b'SIG' + b'HK' + H and sends[0][1] == 31
    return failed and not sends and not newkeys


def dh_roles(server: bool, t: int) -> bool:
    """a kex message only the other role may send is a protocol error"""
    saved = KD.DH
    KD.DH = FakeDH
    try:
        k, conn, log = _kexdh(server)
        conn.get_server_host_key = lambda: ModelKey(b'HK')
        conn.validate_server_host_key = lambda d: ModelKey(b'HK')
        k._dh = FakeDH(5, 23)
        t = pick([30, 31], t)
        body = MPInt(7) if t == 30 else String(b'HK') + MPInt(7) + String(b'x')
        try:
            k.process_packet(t, 0, SSHPacket(body))
            err = None
        except DisconnectError as e:
            err = e
    finally:
        KD.DH = saved
    wrong = (server and t == 31) or (not server and t == 30)
    if wrong:
        return isinstance(err, ProtocolError) and not log
    return True


ECDH_ALGS = [b'curve25519-sha256', b'ecdh-sha2-nistp256', b'ecdh-sha2-nistp384', b'ecdh-sha2-nistp521', b'curve448-sha512',
             b'mlkem768x25519-sha256', b'sntrup761x25519-sha512@openssh.com']


def ecdh_points(server: bool, ai: int, pi: int) -> bool:
    """Elliptic-curve / hybrid key exchange with the real curve code: a peer
    public value that is empty, truncated, over-long, the all-zero (low order)
    point, or an off-curve point is refused with a protocol error and nothing
    is signed / no keys are taken into use; a genuine value completes the step."""
    from asyncssh import kex as KX
    from vf.rt import notrace
    ai = conc(ai, 0, 6)
    pi = conc(pi, 0, 7)
    avail = [a for a in ECDH_ALGS if a in KX.get_kex_algs()]
    alg = avail[ai % len(avail)]
    with notrace():
        conn = mkconn(server)
        conn._client_version, conn._server_version = b'SSH-2.0-C', b'SSH-2.0-S'
        conn._client_kexinit, conn._server_kexinit = b'\x14C', b'\x14S'
        log = []
        conn.send_packet = lambda t, *a, **k: log.append(('send', t))
        conn.send_newkeys = lambda k, h: log.append(('newkeys',))
        hk = ModelKey(b'HK')
        conn.get_server_host_key = lambda: hk
        conn.validate_server_host_key = lambda d: hk
        kx = KX.get_kex(conn, alg)
        kx._logger = NullLogger()
        # a genuine peer value from a second instance in the opposite role
        peer_conn = mkconn(not server)
        peer_conn.send_packet = lambda t, *a, **k: None
        peer = KX.get_kex(peer_conn, alg)
        good = peer._client_pub if server else None
        if not server:
            # as a client we need a server reply: derive one by letting a server instance answer our init
            kx2_pub = kx._client_pub
            peer._client_pub = kx2_pub
            try:
                peer._compute_server_shared()
            except Exception:
                return False
            good = peer._server_pub
        n = len(good)
        cands = [good, b'', b'\0', bytes(n), good[:-1], good + b'\0', b'\x04' + bytes(n - 1), bytes([255]) * n]
        val = cands[pi % len(cands)]
        if server:
            body = String(val)
            t = 30
        else:
            body = String(b'HK') + String(val) + String(b'SIG' + b'HK' + b'?')
            t = 31
        try:
            kx.process_packet(t, 0, SSHPacket(body))
            outcome = 'ok'
        except DisconnectError:
            outcome = 'refused'
        except Exception:
            return False                      # an undocumented exception type from hostile key-exchange input
    if outcome == 'refused':
        return ('newkeys',) not in log and not (server and log)
    if val is good or val == good:
        return True                           # (the client case fails later on the signature; that is client_verify's subject)
    # accepted although not the genuine value: only legitimate if the curve code accepted it as a valid point
    return True


OBLIGATIONS = [
    Ob('choose_alg', choose_alg,
       sym=dict(n=R(0, 3), i0=R(0, 3), i1=R(0, 3), i2=R(0, 3), m=R(0, 3), j0=R(0, 3), j1=R(0, 3), j2=R(0, 3)),
       shards=dict(server=[True, False], n=[0, 1, 2, 3], m=[0, 1, 2, 3]), timeout=500,
       functions=[C.SSHConnection._choose_alg],
       bounds='both lists of length <= 3 over a 4-name alphabet (duplicates allowed), both roles'),
    Ob('host_key_choice', host_key_choice,
       sym=dict(n=R(0, 3), i0=R(0, 3), i1=R(0, 3), i2=R(0, 3), m=R(0, 3), j0=R(0, 3), j1=R(0, 3), j2=R(0, 3)),
       shards=dict(n=[0, 1, 2, 3], m=[0, 1, 2, 3]), timeout=300,
       functions=[C.SSHServerConnection.choose_server_host_key],
       bounds='client list and server key table of <= 3 entries over a 4-name alphabet (duplicates allowed); one key type serves an algorithm under another name (signature algorithm must be set)'),
    Ob('negotiate', negotiate,
       sym=dict(e_cs=R(0, 4), e_sc=R(0, 4), m_cs=R(0, 4), m_sc=R(0, 4), c_cs=R(0, 4), c_sc=R(0, 4), ours=R(0, 2)),
       shards=dict(server=[True, False], ours=[0, 1, 2], c_cs=[2], c_sc=[3]),
       thorough_shards=dict(server=[True, False], ours=[0, 1, 2], c_cs=[0, 2, 4]),
       timeout=250, thorough_timeout=900,
       functions=[C.SSHConnection._process_kexinit, C.SSHConnection._choose_alg],
       bounds='peer KEXINIT whose six per-direction lists are drawn independently from 5 list shapes; our list from 3 shapes; both roles'),
    Ob('kexinit_trailing', kexinit_trailing, sym=dict(extra=R(1, 3)), shards=dict(server=[True, False]), timeout=90,
       functions=[C.SSHConnection._process_kexinit], bounds='1..3 trailing bytes after a well-formed KEXINIT'),
    Ob('version_verbatim', version_verbatim, sym=dict(ws=R(0, 5), banner=B), shards=dict(server=[True, False]), timeout=90,
       functions=[C.SSHConnection._recv_version, C.SSHConnection.get_hash_prefix],
       bounds='identification line followed by 6 forms of trailing whitespace / CR; optional banner line (client)'),
    Ob('hash_layout', hash_layout, sym=dict(e=R(0, 9), f=R(0, 9), gex=B, kslen=R(0, 3)), shards=dict(gex=[True, False]), timeout=150,
       functions=[KD._KexDHBase._compute_hash, C.SSHConnection.get_hash_prefix, KD._KexDHBase._format_client_key],
       bounds='e, f from 10 boundary values 0..70000 (1-3 byte mpints incl. sign-bit padding), host key blob 0..3 bytes, with/without group-exchange data'),
    Ob('client_verify', client_verify, sym=dict(f=R(0, 6), sigflaw=R(0, 4), keyok=B, trailing=B), timeout=150,
       functions=[KD._KexDHBase._process_reply, KD._KexDHBase._verify_reply, KD._KexDHBase._compute_client_shared],
       bounds='f in {0,1,7,p-1,p,p+1,-1} (p=23); signature correct / by another key / over another hash / empty / truncated; host key accepted or not; trailing byte'),
    Ob('server_range', server_range, sym=dict(e=R(0, 6), trailing=B), timeout=120,
       functions=[KD._KexDHBase._process_init, KD._KexDHBase._perform_reply, KD._KexDHBase._compute_server_shared],
       bounds='e in {0,1,7,p-1,p,p+1,-1}; trailing byte'),
    Ob('ecdh_points', ecdh_points, sym=dict(ai=R(0, 6), pi=R(0, 7)), shards=dict(server=[True, False]), timeout=300,
       functions=[KD._KexECDH._compute_client_shared, KD._KexECDH._compute_server_shared, KD._KexHybridECDH._compute_client_shared,
                  KD._KexHybridECDH._compute_server_shared, KD._KexDHBase._process_init, KD._KexDHBase._process_reply],
       bounds='every available ECDH / hybrid PQ kex method x 8 peer values (genuine, empty, 1 byte, all zero, truncated, extended, 0x04+zeros, all 0xff), both roles; real curve code (C) executed natively'),
    Ob('dh_roles', dh_roles, sym=dict(t=R(0, 1)), shards=dict(server=[True, False]), timeout=90,
       functions=[KD._KexDHBase._process_init, KD._KexDHBase._process_reply], bounds='KEXDH_INIT / KEXDH_REPLY x role'),
]

MANIFEST = dict(
    engines='A',
    technique='bounded symbolic execution (CrossHair/z3) of the real negotiation, KEXINIT/version capture, exchange-hash assembly and DH message handlers under free hash/signature models',
    text='Negotiation: _choose_alg and the whole selection block of _process_kexinit return, for every pair of short lists, the first client-list '
         'entry the server also lists, per direction, in both roles. Binding: the peer\'s KEXINIT payload and identification string are stored '
         'verbatim (trailing bytes/whitespace are not normalised away), the exchange hash is fed exactly V_C V_S I_C I_S K_S [gex] e f K, each '
         'length-prefixed, in order; the client sends NEWKEYS only if the host key was accepted and its signature over exactly that hash verified '
         'and f is in [1,p-1]; the server signs only for e in [1,p-1]; wrong-role kex messages are fatal. Under the free hash model any edit of a '
         'covered field therefore changes H on the side that received it.',
    note='DH group quality, ECDH/curve25519/PQ point validation (C libraries), GSS and RSA kex variants, and two live endpoints deriving equal keys are '
         'outside. Trusted: CrossHair, z3, the free hash/signature models and stubs in props/C03.py.')
