"""C13 - File serving and downloading never leave their directory"""

import errno
import os
import posixpath

import importlib
SC = importlib.import_module('asyncssh.scp')
from asyncssh import sftp as S
from asyncssh.sftp import SFTPAttrs, SFTPName, SFTPError

from vf.core import Ob, R, B
from vf.rt import assume, pick, conc, enc_bytes
from vf.stubs import NullLogger, drive

ASSUMPTIONS = [
    'path strings are index-encoded: symbolic length (<= 5 or 6) and per-position symbolic index into the alphabet {/ . a} (+ backslash for SCP); '
    'longer paths and other bytes are outside the claim (the path functions treat all other bytes like "a")',
    'the filesystem is a recording stub: every os.* / open call made by the server or by the download code is logged with its path arguments and then '
    'fails with ENOENT; confinement is judged on the logged paths (lexically, after normpath) - on-disk symlinks are outside the model',
    'os.path.realpath is modelled as normpath (no symlinks on disk)',
]

ALPHA = b'/.a'
ROOT = b'/r'


def confined(p: bytes, root: bytes = ROOT) -> bool:
    if isinstance(p, str):
        p = p.encode()
    n = posixpath.normpath(p)
    if n.startswith(b'//'):
        n = n[1:]
    return n == root or n.startswith(root + b'/')


def _srv(root=ROOT):
    srv = S.SFTPServer.__new__(S.SFTPServer)
    srv._chroot = root

    class Chan:
        logger = NullLogger()

        def get_environment(self):
            return {}

    srv._chan = Chan()
    return srv


def _path(n, i0, i1, i2, i3, i4, i5=0, alpha=ALPHA):
    return enc_bytes(alpha, n, [i0, i1, i2, i3, i4, i5])


def map_path(n: int, i0: int, i1: int, i2: int, i3: int, i4: int, i5: int) -> bool:
    """SFTPServer.map_path: whatever the client path, the result is the root
    or lexically below it, contains no '..' component, and reverse_map_path
    inverts it."""
    path = _path(n, i0, i1, i2, i3, i4, i5)
    srv = _srv()
    out = srv.map_path(path)
    if not (out == ROOT or out.startswith(ROOT + b'/')):
        return False
    if b'..' in out.split(b'/'):
        return False
    if not confined(out):
        return False
    back = srv.reverse_map_path(out)
    return back == posixpath.normpath(posixpath.join(b'/', path)).replace(b'//', b'/') or back == b'/'


class _FakePath:
    def __getattr__(self, name):
        if name == 'realpath':
            return posixpath.normpath
        return getattr(posixpath, name)


_DIR_STAT = os.stat('/')


class _FakeOS:
    def __init__(self, log, succeed=()):
        self._log = log
        self._succeed = succeed
        self.path = _FakePath()

    def __getattr__(self, name):
        real = getattr(os, name)
        if callable(real) and name not in ('fsencode', 'fsdecode', 'fspath'):
            def f(*a, **k):
                self._log.append((name, [x for x in a if isinstance(x, (bytes, str))]))
                if name in self._succeed:
                    return _DIR_STAT      # "a directory"
                raise OSError(errno.ENOENT, 'stub')
            return f
        return real


OPS = ['open', 'open56', 'lstat', 'setstat', 'lsetstat', 'remove', 'mkdir', 'rmdir', 'realpath', 'stat',
       'rename', 'readlink', 'symlink', 'link', 'posix_rename', 'statvfs', 'scandir']


def server_ops(op: int, n: int, i0: int, i1: int, i2: int, i3: int, i4: int,
               m: int, j0: int, j1: int, j2: int) -> bool:
    """Every SFTPServer file operation, with arbitrary client paths: every
    path that reaches an os.* call or open() is inside the root."""
    name = pick(OPS, op)
    p1 = _path(n, i0, i1, i2, i3, i4)
    p2 = enc_bytes(ALPHA, m, [j0, j1, j2])
    srv = _srv()
    log = []
    saved = (S.os, getattr(S, 'open', None))
    # directory listing: stat calls succeed so that the '.' and '..' entries the server adds are both produced
    S.os = _FakeOS(log, ('lstat', 'stat') if name == 'scandir' else ())

    def fake_open(path, *a, **k):
        log.append(('open', [path]))
        raise OSError(errno.ENOENT, 'stub')

    S.open = fake_open
    try:
        try:
            fn = getattr(srv, name)
            if name == 'open':
                r = fn(p1, 1, SFTPAttrs())
            elif name == 'open56':
                r = fn(p1, 1, 3, SFTPAttrs())
            elif name in ('setstat', 'lsetstat', 'mkdir'):
                r = fn(p1, SFTPAttrs(permissions=0o644))
            elif name in ('rename', 'symlink', 'link', 'posix_rename'):
                r = fn(p1, p2)
            elif name == 'scandir':
                agen = fn(p1)
                r = None
                for _ in range(3):
                    step = drive(agen.__anext__())
                    if step[0] != 'ret':
                        break
            else:
                r = fn(p1)
            if hasattr(r, 'send'):
                drive(r)
        except (OSError, SFTPError):
            pass
    finally:
        S.os = saved[0]
        if saved[1] is None:
            del S.open
        else:
            S.open = saved[1]
    for _, paths in log:
        for p in paths:
            if name == 'symlink' and p is paths[0] and not posixpath.isabs(p):
                continue        # relative link *target* text: judged below together with the link location
            if not confined(p):
                return False
    if name == 'symlink':
        for opn, paths in log:
            if opn == 'symlink' and len(paths) == 2:
                target, link = paths
                tgt = target if posixpath.isabs(target) else posixpath.join(posixpath.dirname(link), target)
                if not confined(tgt):
                    return False
    return True


SCP_ALPHA = b'/\\.a'


class _RecFS:
    def __init__(self, log, isdir):
        self.log, self._isdir = log, isdir

    async def isdir(self, path):
        return self._isdir

    async def exists(self, path):
        return self._isdir

    async def mkdir(self, path):
        self.log.append(('mkdir', path))

    async def setstat(self, path, attrs, **k):
        self.log.append(('setstat', path))
        self.setstat_follow = getattr(self, 'setstat_follow', []) + [(path, k.get('follow_symlinks', True))]

    async def open(self, path, mode='wb'):
        self.log.append(('open', path))

        class F:
            async def write(self, data, offset):
                return len(data)

            async def close(self):
                pass
        return F()

    async def symlink(self, target, path):
        self.log.append(('symlink', path))


def scp_sink(n1: int, a0: int, a1: int, a2: int, n2: int, b0: int, b1: int, b2: int,
             act1: bool, isdir: bool, preserve: bool) -> bool:
    """SCP download: for any two records (C or D with arbitrary names) sent by
    the remote side, everything the sink creates, opens or re-stats is inside
    the destination the caller named."""
    name1 = enc_bytes(SCP_ALPHA, n1, [a0, a1, a2])
    name2 = enc_bytes(SCP_ALPHA, n2, [b0, b1, b2])
    assume(len(name1) > 0 and len(name2) > 0)
    dst = b'/dl/d'
    log = []
    sink = SC._SCPSink.__new__(SC._SCPSink)
    sink._fs = _RecFS(log, isdir)
    sink._preserve = preserve
    sink._recurse = True
    sink._must_be_dir = False
    sink._block_size = 16
    sink._progress_handler = None
    sink._error_handler = None
    sink._server = False
    sink._logger = NullLogger()
    script = [(b'D' if act1 else b'C', b'0755 0 ' + name1), (b'C', b'0644 0 ' + name2), (b'E', b''), (b'E', b''), (None, None)]
    pos = [0]

    async def recv_request():
        r = script[min(pos[0], len(script) - 1)]
        pos[0] += 1
        return r

    sink.recv_request = recv_request

    async def await_response():
        return None

    sink.await_response = await_response
    sink.send_ok = lambda: None
    sink.send_error = lambda exc: None
    errs = []
    sink.handle_error = lambda exc: errs.append(exc)
    r = drive(sink._recv_files(b'src', dst))
    if r[0] == 'exc' and not isinstance(r[1], (OSError, SFTPError)):
        return False
    for _, p in log:
        if not confined(p, dst) and not (not isdir and p == dst):
            return False
    return True


def sftp_get_names(n: int, i0: int, i1: int, i2: int, i3: int, kind: int, preserve: bool) -> bool:
    """Recursive SFTP download: for any directory-entry name a hostile server
    returns, everything created or modified locally is inside the destination
    directory the caller named."""
    fname = enc_bytes(ALPHA, n, [i0, i1, i2, i3])
    assume(len(fname) > 0)
    dst = b'/dl/d'
    log = []
    ftype = pick([S.FILEXFER_TYPE_REGULAR, S.FILEXFER_TYPE_DIRECTORY, S.FILEXFER_TYPE_SYMLINK], kind)

    class SrcFS:
        limits = None

        async def stat(self, path, **k):
            return SFTPAttrs(type=S.FILEXFER_TYPE_DIRECTORY, permissions=0o755)

        async def scandir(self, path):
            if path == b'/remote':
                yield SFTPName(fname, attrs=SFTPAttrs(type=ftype, size=0, permissions=0o644))

        async def readlink(self, path):
            return b'target'

        async def open(self, path, mode='rb', **k):
            raise S.SFTPNoSuchFile('stub')

    class DstFS(_RecFS):
        async def open(self, path, mode='wb', **k):
            self.log.append(('open', path))
            raise S.SFTPFailure('stub')

    cl = S.SFTPClient.__new__(S.SFTPClient)

    class H:
        version = 3
        logger = NullLogger()
        supports_copy_data = False

    cl._handler = H()
    cl._path_encoding = None
    cl._path_errors = 'strict'
    cl._cwd = None
    errs = []
    dfs = DstFS(log, True)
    r = drive(cl._copy(SrcFS(), dfs, b'/remote', dst,
                       SFTPAttrs(type=S.FILEXFER_TYPE_DIRECTORY), preserve, True, False, False,
                       16, 1, None, lambda exc: errs.append(exc), False))
    if r[0] == 'exc' and not isinstance(r[1], (OSError, SFTPError)):
        return False
    if r[0] == 'suspended':
        return False
    # a symlink recreated locally must not have its attributes applied *through* the link (its target is server-chosen)
    made_links = [p for op, p in log if op == 'symlink']
    for p, follow in getattr(dfs, 'setstat_follow', []):
        if p in made_links and follow:
            return False
    for _, p in log:
        if not confined(p, dst):
            return False
    return True


class _LinkFS:
    """Destination file system model that knows about the symlinks the copy itself creates: every operation is logged
    with the path it really touches (links in any path component followed, as the OS would)."""

    def __init__(self, log, dirs):
        self.log = log
        self.links = {}
        self.dirs = set(dirs)

    encode = S.LocalFS.encode
    compose_path = S.LocalFS.compose_path

    def resolve(self, path, final=True):
        parts = [c for c in path.split(b'/') if c]
        cur = b''
        for i, c in enumerate(parts):
            cur = cur + b'/' + c
            last = i == len(parts) - 1
            if cur in self.links and (final or not last):
                cur = posixpath.normpath(self.links[cur])
        return cur or b'/'

    async def isdir(self, path):
        return self.resolve(path) in self.dirs

    async def exists(self, path):
        r = self.resolve(path)
        return r in self.dirs or path in self.links

    async def mkdir(self, path):
        r = self.resolve(path, final=False)
        self.log.append(('mkdir', r))
        self.dirs.add(r)

    async def setstat(self, path, attrs, *, follow_symlinks=True):
        self.log.append(('setstat', self.resolve(path, final=follow_symlinks)))

    async def symlink(self, target, path):
        r = self.resolve(path, final=False)
        self.log.append(('symlink', r))
        if r in self.links or r in self.dirs:
            raise S.SFTPFailure('exists')
        self.links[r] = target

    async def open(self, path, mode='wb', **k):
        self.log.append(('open', self.resolve(path)))
        raise S.SFTPFailure('stub')


def sftp_get_dup_names(first: int, second: int, preserve: bool, glob: bool = False) -> bool:
    """Recursive get where the server lists the same name twice with different
    types (file / directory / symlink to a place outside): with the symlinks the
    download itself creates taken into account, every path really touched is
    inside the destination."""
    dst = b'/dl/d'
    log = []
    types = [S.FILEXFER_TYPE_REGULAR, S.FILEXFER_TYPE_DIRECTORY, S.FILEXFER_TYPE_SYMLINK]
    t1, t2 = pick(types, first), pick(types, second)

    class SrcFS:
        limits = None
        basename = staticmethod(S.SFTPClient.basename)

        def encode(self, path):
            return path

        async def stat(self, path, **k):
            return SFTPAttrs(type=S.FILEXFER_TYPE_DIRECTORY, permissions=0o755)

        async def scandir(self, path):
            if path == b'/remote':
                yield SFTPName(b'x', attrs=SFTPAttrs(type=t1, size=1, permissions=0o644))
                yield SFTPName(b'x', attrs=SFTPAttrs(type=t2, size=1, permissions=0o644))
            else:
                yield SFTPName(b'evil', attrs=SFTPAttrs(type=S.FILEXFER_TYPE_REGULAR, size=1, permissions=0o644))

        async def readlink(self, path):
            return b'/outside'

        async def open(self, path, mode='rb', **k):
            class F:
                async def read(self, size, offset):
                    return b'z'[offset:offset + size]

                async def close(self):
                    pass
            return F()

    cl = S.SFTPClient.__new__(S.SFTPClient)

    class H:
        version = 3
        logger = NullLogger()
        supports_copy_data = False

    cl._handler = H()
    cl._path_encoding = None
    cl._path_errors = 'strict'
    cl._cwd = None
    errs = []
    dfs = _LinkFS(log, [b'/dl', b'/dl/d', b'/outside'])
    if glob:
        # get('/remote/*', dst, recurse=True): the two entries reach the copy as two glob matches
        r = drive(cl._begin_copy(SrcFS(), dfs, [b'/remote/*'], dst, 'get', True, preserve, True, False, False,
                                 16, 1, None, lambda exc: errs.append(exc)))
    else:
        r = drive(cl._copy(SrcFS(), dfs, b'/remote', dst, SFTPAttrs(type=S.FILEXFER_TYPE_DIRECTORY), preserve, True, False, False,
                           16, 1, None, lambda exc: errs.append(exc), False))
    if r[0] == 'exc' and not isinstance(r[1], (OSError, SFTPError)):
        return False
    if r[0] == 'suspended':
        return False
    for _, p in log:
        if not confined(p, dst):
            return False
    return True


def sftp_glob_names(n: int, i0: int, i1: int, i2: int, i3: int, kind: int, preserve: bool) -> bool:
    """get('/remote/*', dst, recurse=True): for any directory-entry name a
    hostile server returns for /remote (and any listing it returns below it),
    everything created or modified locally is inside dst."""
    fname = enc_bytes(ALPHA, n, [i0, i1, i2, i3])
    assume(len(fname) > 0)
    dst = b'/dl/d'
    log = []
    ftype = pick([S.FILEXFER_TYPE_REGULAR, S.FILEXFER_TYPE_DIRECTORY, S.FILEXFER_TYPE_SYMLINK], kind)

    class SrcFS:
        limits = None
        basename = staticmethod(S.SFTPClient.basename)

        def encode(self, path):
            return path

        async def stat(self, path, **k):
            return SFTPAttrs(type=S.FILEXFER_TYPE_DIRECTORY, permissions=0o755)

        async def scandir(self, path):
            if path == b'/remote':
                yield SFTPName(fname, attrs=SFTPAttrs(type=ftype, size=0, permissions=0o644))
            else:
                yield SFTPName(b'evil', attrs=SFTPAttrs(type=S.FILEXFER_TYPE_REGULAR, size=0, permissions=0o644))

        async def readlink(self, path):
            return b'target'

        async def open(self, path, mode='rb', **k):
            raise S.SFTPNoSuchFile('stub')

    class DstFS(_RecFS):
        encode = S.LocalFS.encode
        compose_path = S.LocalFS.compose_path

        async def open(self, path, mode='wb', **k):
            self.log.append(('open', path))
            raise S.SFTPFailure('stub')

    cl = S.SFTPClient.__new__(S.SFTPClient)

    class H:
        version = 3
        logger = NullLogger()
        supports_copy_data = False

    cl._handler = H()
    cl._path_encoding = None
    cl._path_errors = 'strict'
    cl._cwd = None
    errs = []
    r = drive(cl._begin_copy(SrcFS(), DstFS(log, True), [b'/remote/*'], dst, 'get', True, preserve, True, False, False,
                             16, 1, None, lambda exc: errs.append(exc)))
    if r[0] == 'exc' and not isinstance(r[1], (OSError, SFTPError)):
        return False
    if r[0] == 'suspended':
        return False
    for _, p in log:
        if not confined(p, dst):
            return False
    return True


OBLIGATIONS = [
    Ob('map_path', map_path,
       sym=dict(n=R(0, 6), i0=R(0, 2), i1=R(0, 2), i2=R(0, 2), i3=R(0, 2), i4=R(0, 2), i5=R(0, 2)),
       shards=dict(n=[0, 1, 2, 3, 4, 5]), thorough_shards=dict(n=[0, 1, 2, 3, 4, 5, 6]),
       pre=[], timeout=120, thorough_timeout=400,
       functions=[S.SFTPServer.map_path, S.SFTPServer.reverse_map_path],
       bounds='client path of length <= 5 (thorough 6) over {/ . a}; chroot /r'),
    Ob('server_ops', server_ops,
       sym=dict(n=R(0, 3), i0=R(0, 2), i1=R(0, 2), i2=R(0, 2), i3=R(0, 2), i4=R(0, 2),
                m=R(0, 3), j0=R(0, 2), j1=R(0, 2), j2=R(0, 2)),
       shards=dict(op=list(range(len(OPS))), i4=[0], i3=[0], m=[2]),
       thorough_shards=dict(op=list(range(len(OPS))), n=[0, 1, 2, 3, 4, 5]),
       timeout=150, thorough_timeout=600,
       functions=[getattr(S.SFTPServer, o) for o in OPS],
       bounds='17 server operations; first path <= 3 chars (thorough 5), second path 2 (thorough <= 3) chars over {/ . a}'),
    Ob('scp_sink', scp_sink,
       sym=dict(n1=R(1, 3), a0=R(0, 3), a1=R(0, 3), a2=R(0, 3), n2=R(1, 2), b0=R(0, 3), b1=R(0, 3), b2=R(0, 3),
                act1=B, isdir=B, preserve=B),
       shards=dict(act1=[True, False], isdir=[True, False], b2=[0], preserve=[True, False], n2=[1, 2]),
       timeout=400, thorough_timeout=600,
       functions=[SC._parse_cd_args, SC._SCPSink._recv_files, SC._SCPSink._recv_dir, SC._SCPSink._recv_file],
       bounds='two SCP records (D/C then C) with names of length <= 3 and <= 2 over {/ \\ . a}; destination exists as dir or not; preserve on/off'),
    Ob('sftp_get_names', sftp_get_names,
       sym=dict(n=R(1, 4), i0=R(0, 2), i1=R(0, 2), i2=R(0, 2), i3=R(0, 2), kind=R(0, 2), preserve=B),
       shards=dict(kind=[0, 1, 2]),
       timeout=150, thorough_timeout=400,
       functions=[S.SFTPClient._copy],
       bounds='one directory entry with a name of length <= 4 over {/ . a}, of type file / directory / symlink'),
    Ob('sftp_glob_names', sftp_glob_names,
       sym=dict(n=R(1, 4), i0=R(0, 2), i1=R(0, 2), i2=R(0, 2), i3=R(0, 2), kind=R(0, 2), preserve=B),
       shards=dict(kind=[0, 1, 2]),
       timeout=150, thorough_timeout=400,
       functions=[S.SFTPClient._begin_copy, S.SFTPGlob.match, S.SFTPGlob._match_pattern, S.SFTPClient._copy],
       bounds='glob download /remote/* with one matching directory entry whose name has length <= 4 over {/ . a}, of type file / directory / symlink; any listing below it returns one file'),
    Ob('sftp_get_dup_names', sftp_get_dup_names, sym=dict(preserve=B, glob=B),
       shards=dict(first=[0, 1, 2], second=[0, 1, 2]), timeout=120,
       functions=[S.SFTPClient._copy, S.SFTPClient._begin_copy, S.SFTPGlob._report_match],
       bounds='recursive get of a directory, or of the glob dir/*: one remote directory whose listing names "x" twice, each of type file / directory / symlink (target outside the destination); '
              'destination model follows the symlinks created by the download itself'),
]

MANIFEST = dict(
    engines='A',
    technique='bounded symbolic execution (CrossHair/z3) of the real path-mapping, server operation, SCP sink and recursive-get code on index-encoded path strings against a recording filesystem stub',
    text='Bounded symbolic verification of confinement: SFTPServer.map_path for every client path up to 5-6 characters over {/ . a}; each of the 17 '
         'SFTPServer file operations run on such paths with os.*/open replaced by a recorder - every path that reaches the filesystem layer is '
         'lexically inside the root; the SCP sink driven with two arbitrary C/D records and the recursive SFTP get driven with an arbitrary directory '
         'entry name - every created/opened/re-stat\'ed path is inside the destination, also for glob downloads, for listings that name an entry twice (symlink then directory/file, judged on a destination model that follows the links the download itself created), and attributes are never applied through a recreated link.',
    note='Lexical confinement only: symlinks already on disk (and realpath of them) are outside the model; alphabet {/ . a} (+ \\\\ for SCP) and the '
         'length bounds are part of the claim. Trusted: CrossHair, z3, the confinement predicate and recording stubs in props/C13.py.')
