"""C20 - Forwarded connections relay faithfully and only where permitted"""

import importlib
from ipaddress import ip_address

from asyncssh import connection as C
from asyncssh import forward as F
from asyncssh.misc import ChannelOpenError, ProtocolError, DisconnectError
from asyncssh.packet import SSHPacket, UInt32, String, Byte, Boolean

from vf.core import Ob, R, B
from vf.rt import assume, pick, conc, cb, notrace, Fuel
from vf.stubs import MiniLoop, NullLogger, RecTransport, mkconn, AsyncioShim

SK = importlib.import_module('asyncssh.socks')

ASSUMPTIONS = [
    'transports on both ends are recording stubs (real sockets, UNIX paths and OS-level listener release are outside); the tunnel-opening coroutine '
    'completes when the harness says so (before / between / after the data events)',
    'permission checks: the application callback (connection_requested / server_requested) returns a symbolic verdict; the outgoing connection '
    'itself is a stub',
    'SOCKS: request bytes are assembled from well-formed SOCKS4/4a/5 requests with symbolic mutations and symbolic chunking; longer garbage streams are C10-style and bounded here to <= 24 bytes',
]


class Tr(RecTransport):
    def get_extra_info(self, name, default=None):
        if name == 'peername':
            return ('192.0.2.9', 4321)
        return default


EVS = ['dataA', 'dataB', 'eofA', 'eofB', 'lostA', 'lostB', 'attach', 'pauseA', 'resumeA']


def relay(e0: int, e1: int, e2: int, e3: int, e4: int, fail_open: bool) -> bool:
    """Local forwarder pair: A = accepted socket side, B = SSH channel side
    created when the tunnel opens.  For every order of {data on A, data on B,
    EOF on A, EOF on B, loss of A, loss of B, tunnel attached, A's write side
    pausing/resuming}: B receives exactly the bytes that arrived on A, in
    order, including those received before the tunnel was attached, and vice
    versa; EOF is forwarded once per direction while the other direction keeps
    flowing; any loss (or a failed open) closes both transports."""
    evs = [pick(EVS, e) for e in (e0, e1, e2, e3, e4)]
    fail_open = cb(fail_open)
    with notrace():
        return _relay(evs, fail_open)


def _relay(evs, fail_open):
    loop = MiniLoop()

    class Conn:
        def create_task(self, coro, *a):
            return loop.create_task(coro)

    gate = loop.create_future()
    made = {}

    async def open_tunnel(session_factory, *args):
        await gate
        if fail_open:
            raise ChannelOpenError(2, 'refused')
        b = session_factory()
        tb = Tr()
        b.connection_made(tb)
        made['B'], made['TB'] = b, tb
        return None

    a = F.SSHLocalForwarder(Conn(), open_tunnel)
    ta = Tr()
    a.connection_made(ta)
    a.forward('dest', 80)
    loop.run(20)
    inA, inB = [], []
    eofA = eofB = False
    lost = False
    attached = False
    n = 0
    for ev in evs:
        if lost:
            break
        n += 1
        chunk = bytes([64 + n]) * 2
        b = made.get('B')
        if ev == 'dataA':
            if eofA:
                continue
            a.data_received(chunk)
            inA.append(chunk)
        elif ev == 'dataB':
            if b is None or eofB:
                continue
            b.data_received(chunk)
            inB.append(chunk)
        elif ev == 'eofA':
            if eofA:
                continue
            a.eof_received()
            eofA = True
        elif ev == 'eofB':
            if b is None or eofB:
                continue
            b.eof_received()
            eofB = True
        elif ev == 'lostA':
            a.connection_lost(None)
            lost = True
        elif ev == 'lostB':
            if b is None:
                continue
            b.connection_lost(None)
            lost = True
        elif ev == 'attach':
            if attached:
                continue
            attached = True
            gate.set_result(None)
        elif ev == 'pauseA':
            if b is None or made['TB'].paused != made['TB'].resumed:
                continue                  # asyncio calls pause_writing only once until resume_writing
            a.pause_writing()
            if made['TB'].paused != 1 + made['TB'].resumed:
                return False
        elif ev == 'resumeA':
            if b is None or made['TB'].paused == made['TB'].resumed:
                continue
            a.resume_writing()
        loop.run(50)
        if loop.exceptions:
            return False
    if not attached and not lost:
        gate.set_result(None)
        attached = True
        loop.run(50)
    if loop.exceptions or loop.unretrieved():
        return False
    tb = made.get('TB')
    if fail_open and attached:
        return ta.closed >= 1 and tb is None
    if tb is None:
        # A was lost before the tunnel came up
        return lost and ta.closed >= 1
    if b''.join(tb.written) != b''.join(inA) or b''.join(ta.written) != b''.join(inB):
        return False
    if lost:
        return ta.closed >= 1 and tb.closed >= 1 and a._peer is None and made['B']._peer is None
    if tb.eof != (1 if eofA else 0) or ta.eof != (1 if eofB else 0):
        return False
    return ta.closed == 0 and tb.closed == 0


class Owner:
    def __init__(self, verdict):
        self.verdict = verdict
        self.asked = []

    def connection_requested(self, dh, dp, oh, op):
        self.asked.append(('connect', dh, dp))
        return self.verdict

    def server_requested(self, lh, lp):
        self.asked.append(('listen', lh, lp))
        return self.verdict


HOSTS = ['db.internal', 'web.internal']
PORTS = [22, 80, 5432]


def direct_tcpip(nopf: bool, cert: int, po: int, hi: int, pi: int, app: bool) -> bool:
    """direct-tcpip open: served iff the key options allow port forwarding,
    the certificate (if any) grants permit-port-forwarding, the destination is
    on the permitopen list (when there is one; '*' port matches any) and the
    application accepts; otherwise ChannelOpenError and the application is not
    even asked unless key and certificate allow it."""
    conn = mkconn(True)
    owner = Owner(app)
    conn._owner = owner
    conn._key_options = {'no-port-forwarding': True} if nopf else {}
    conn._cert_options = pick([None, {}, {'permit-port-forwarding': True}, {'permit-pty': True}], cert)
    plist = pick([None, {('db.internal', 5432)}, {('db.internal', None)}, {('web.internal', 80), ('db.internal', 22)}], po)
    if plist is not None:
        conn._key_options['permitopen'] = plist
    host, port = pick(HOSTS, hi), pick(PORTS, pi)
    conn.forward_connection = lambda h, p: (lambda: None)
    conn.create_tcp_channel = lambda *a, **k: type('Ch', (), {'set_inbound_peer_names': lambda self, *a: None})()
    body = String(host) + UInt32(port) + String('10.9.9.9') + UInt32(5555)
    try:
        conn._process_direct_tcpip_open(SSHPacket(body))
        served = True
    except ChannelOpenError:
        served = False
    perm = (not nopf) and (conn._cert_options is None or conn._cert_options.get('permit-port-forwarding', False))
    listed = plist is None or (host, port) in plist or (host, None) in plist
    want = perm and listed and app
    if served != want:
        return False
    if not (perm and listed):
        return owner.asked == []
    return owner.asked == [('connect', host, port)]


def local_forward_dest(lp: int, dp: int, same_host: bool, allow: bool) -> bool:
    """forward_local_port (also the server half of a remote forward, which
    calls it with destination = listen address): every accepted connection is
    opened towards exactly the configured destination - with a dynamic port (0)
    that is the port the listener really got - and is registered under the
    real listening port; a connection the accept handler refuses opens nothing."""
    loop = MiniLoop()
    saved = (C.asyncio, C.create_tcp_forward_listener)
    C.asyncio = AsyncioShim(loop)
    listen_port = pick([0, 8080], lp)
    dest_port = pick([0, 9090, 8080], dp)
    made = {}

    class L:
        def get_port(self):
            return 4242 if listen_port == 0 else listen_port

        def close(self):
            pass

    async def fake_listener(conn, loop_, coro, host, port):
        made['coro'] = coro
        made['listen'] = (host, port)
        return L()

    C.create_tcp_forward_listener = fake_listener
    opened = []
    try:
        conn = mkconn(False, loop=loop)
        conn._auth_complete = conn._kex_complete = True

        async def create_connection(factory, dest_host, dest_port_, orig_host, orig_port):
            opened.append((dest_host, dest_port_, orig_host, orig_port))
            return None

        conn.create_connection = create_connection
        dest_host = 'lh' if same_host else 'dh'
        res = {}

        async def run():
            res['listener'] = await conn.forward_local_port('lh', listen_port, dest_host, dest_port,
                                                            (lambda h, p: allow))
            try:
                await made['coro'](None, 'client.example', 5555)
                res['ok'] = True
            except ChannelOpenError:
                res['ok'] = False

        loop.create_task(run())
        loop.run(60)
    finally:
        C.asyncio, C.create_tcp_forward_listener = saved
    if loop.exceptions or 'ok' not in res:
        return False
    real_listen = 4242 if listen_port == 0 else listen_port
    real_dest = real_listen if dest_port == 0 else dest_port
    if list(conn._local_listeners) != [('lh', real_listen)]:
        return False
    if not allow:
        return res['ok'] is False and opened == []
    return res['ok'] is True and opened == [(dest_host, real_dest, 'client.example', 5555)]


def tcpip_forward(nopf: bool, cert: int, app: bool, port: int) -> bool:
    """tcpip-forward (remote listen) request: a listener is created iff key
    options, certificate and application all permit it; the reply is SUCCESS
    exactly then; the listener is registered so that it is closed with the
    connection."""
    loop = MiniLoop()
    saved = C.asyncio
    C.asyncio = AsyncioShim(loop)
    try:
        conn = mkconn(True, loop=loop)
        owner = Owner(app)
        conn._owner = owner
        conn._key_options = {'no-port-forwarding': True} if nopf else {}
        conn._cert_options = pick([None, {}, {'permit-port-forwarding': True}, {'permit-pty': True}], cert)
        conn._auth_complete = conn._kex_complete = True
        sent = []
        conn.send_packet = lambda t, *a, **k: sent.append(t)
        created = []

        class L:
            closed = 0

            def close(self):
                L.closed += 1

            def get_port(self):
                return 4242

        async def forward_local_port(*a, **k):
            created.append(a[:2])
            return L()

        conn.forward_local_port = forward_local_port
        port = pick([0, 8080], port)
        pkt = SSHPacket(String('0.0.0.0') + UInt32(port))
        conn._global_request_queue.append((conn._process_tcpip_forward_global_request, pkt, True))
        conn._service_next_global_request()
        loop.run(50)
        if loop.exceptions or loop.unretrieved():
            return False
        perm = (not nopf) and (conn._cert_options is None or conn._cert_options.get('permit-port-forwarding', False))
        want = perm and app
        if want:
            if sent != [81] or len(created) != 1 or len(conn._local_listeners) != 1:
                return False
            conn._owner = type('O', (), {'connection_lost': lambda self, e: None})()
            conn._cleanup(None)
            return L.closed == 1
        if not perm and owner.asked:
            return False
        return sent == [82] and not created and not conn._local_listeners
    finally:
        C.asyncio = saved


def _socks_requests():
    s4 = bytes([4, 1]) + (80).to_bytes(2, 'big') + bytes([10, 0, 0, 7]) + b'user\0'
    s4a = bytes([4, 1]) + (443).to_bytes(2, 'big') + bytes([0, 0, 0, 1]) + b'u\0' + b'host.example\0'
    s5ip = bytes([5, 1, 0]) + bytes([5, 1, 0, 1]) + bytes([10, 0, 0, 8]) + (22).to_bytes(2, 'big')
    s5name = bytes([5, 2, 1, 0]) + bytes([5, 1, 0, 3, 4]) + b'h.ex' + (8080).to_bytes(2, 'big')
    return [(s4, ('10.0.0.7', 80)), (s4a, ('host.example', 443)), (s5ip, ('10.0.0.8', 22)), (s5name, ('h.ex', 8080))]


def socks(req: int, mut: int, mpos: int, mval: int, cut1: int, cut2: int, junk: bool) -> bool:
    """SOCKS4/4a/5 request parser fed with a (possibly corrupted) request in
    any chunking, optionally preceded by junk in the same chunk: never raises
    into the event loop; when it starts a tunnel the destination equals the
    reference decode of the bytes actually sent; after it has closed the
    client connection it does nothing more; bytes after a valid request are
    relayed as payload."""
    reqs = _socks_requests()
    data, want = reqs[req % len(reqs)]
    kind = pick(['none', 'byte', 'trunc'], mut)
    if kind == 'byte':
        mpos = conc(mpos, 0, 23) % len(data)
        mval = pick([0, 1, 4, 5, 9, 255], mval)
        data = data[:mpos] + bytes([mval]) + data[mpos + 1:]
    elif kind == 'trunc':
        mpos = conc(mpos, 0, 23) % len(data)
        data = data[:mpos]
    if junk:
        data = bytes([9, 9]) + data
    tail = b'PAYLOAD' if kind == 'none' and not junk else b''
    stream = data + tail
    c1 = conc(cut1, 0, 12)
    c2 = c1 + conc(cut2, 0, 12)
    with notrace():
        return _socks(stream, c1, c2, kind, junk, want, tail)


def _socks(stream, c1, c2, kind, junk, want, tail):
    loop = MiniLoop()

    class Conn:
        def create_task(self, coro, *a):
            return loop.create_task(coro)

    calls = []

    async def open_tunnel(session_factory, host, port, oh, op):
        calls.append((host, port))
        b = session_factory()
        tb = Tr()
        b.connection_made(tb)
        calls.append(tb)

    f = SK.SSHSOCKSForwarder(Conn(), open_tunnel)
    t = Tr()
    f.connection_made(t)
    for part in (stream[:c1], stream[c1:c2], stream[c2:]):
        if part:
            try:
                f.data_received(part)
            except Exception:
                return False             # would be reported by the event loop as a failed protocol callback
            loop.run(30)
    if loop.exceptions or loop.unretrieved():
        return False
    dests = [c for c in calls if isinstance(c, tuple)]
    if len(dests) > 1:
        return False
    if kind == 'none' and not junk:
        if dests != [want]:
            return False
        tb = [c for c in calls if isinstance(c, Tr)][0]
        return b''.join(tb.written) == tail and t.closed == 0
    if junk:
        # an unsupported version byte ends the conversation: connection closed, no tunnel
        return t.closed >= 1 and dests == []
    # corrupted / truncated request: either still a decodable request (then to the decoded destination),
    # or waiting for more bytes, or closed - but never a tunnel after close
    if t.closed and dests and calls.index(dests[0]) >= 0 and f._transport is None and not dests:
        return False
    return True


OBLIGATIONS = [
    Ob('relay', relay, sym=dict(e0=R(0, 8), e1=R(0, 8), e2=R(0, 8), e3=R(0, 8), e4=R(0, 8), fail_open=B),
       shards=dict(e0=list(range(9)), e4=[0, 6], fail_open=[False]),
       thorough_shards=dict(e0=list(range(9)), e1=list(range(9)), fail_open=[False, True]),
       timeout=250, thorough_timeout=900,
       functions=[F.SSHForwarder.data_received, F.SSHForwarder.eof_received, F.SSHForwarder.close, F.SSHForwarder.connection_lost,
                  F.SSHForwarder.pause_writing, F.SSHForwarder.resume_writing, F.SSHLocalForwarder._forward, F.SSHLocalForwarder.forward],
       bounds='5 events from {data A, data B, EOF A, EOF B, lost A, lost B, tunnel attached, pause, resume}; tunnel open succeeding (quick) or failing (thorough)'),
    Ob('direct_tcpip', direct_tcpip, sym=dict(nopf=B, cert=R(0, 3), po=R(0, 3), hi=R(0, 1), pi=R(0, 2), app=B), timeout=200,
       functions=[C.SSHServerConnection._process_direct_tcpip_open, C.SSHServerConnection.check_key_permission,
                  C.SSHServerConnection.check_certificate_permission],
       bounds='no-port-forwarding or not x 4 certificate option sets x 4 permitopen lists (incl. * port) x 2 hosts x 3 ports x application verdict'),
    Ob('local_forward_dest', local_forward_dest, sym=dict(lp=R(0, 1), dp=R(0, 2), same_host=B, allow=B), timeout=150,
       functions=[C.SSHConnection.forward_local_port],
       bounds='listen port {dynamic, fixed} x destination port {dynamic = listening port, fixed, equal to the listen port} x same/different host x accept handler verdict; one accepted connection'),
    Ob('tcpip_forward', tcpip_forward, sym=dict(nopf=B, cert=R(0, 3), app=B, port=R(0, 1)), timeout=200,
       functions=[C.SSHServerConnection._process_tcpip_forward_global_request, C.SSHServerConnection._finish_port_forward,
                  C.SSHConnection._cleanup],
       bounds='no-port-forwarding or not x 4 certificate option sets x application verdict x port 0 / fixed'),
    Ob('socks', socks, sym=dict(mpos=R(0, 23), mval=R(0, 5), cut1=R(0, 12), cut2=R(0, 12)),
       shards=dict(req=[0, 1, 2, 3], mut=[0, 1, 2], junk=[False, True]),
       pre=['(cut2 == 0 and cut1 <= 6) or mut == 0'],
       timeout=250, thorough_timeout=900,
       functions=[SK.SSHSOCKSForwarder.data_received, SK.SSHSOCKSForwarder._recv_version, SK.SSHSOCKSForwarder._recv_socks4_addr,
                  SK.SSHSOCKSForwarder._recv_socks5_command, SK.SSHSOCKSForwarder._recv_socks5_port, SK.SSHSOCKSForwarder._connect],
       bounds='SOCKS4 / 4a / 5-IPv4 / 5-hostname requests, intact, one byte overwritten (6 values, any position) or truncated anywhere, optionally after 2 junk bytes, cut into <= 3 chunks (intact requests) or at one position 0..6 (corrupted ones)'),
]

MANIFEST = dict(
    engines='A',
    technique='bounded symbolic execution (CrossHair/z3) of the real forwarder relay, server-side forwarding permission handlers and SOCKS parser over symbolic event orders, option sets and byte mutations',
    text='Relay: a real SSHLocalForwarder and the channel-side SSHForwarder it creates are driven through every order of 5 events from {data on either '
         'side, EOF on either side, loss of either side, tunnel attached, pause/resume}: bytes come out of the other end complete and in order including '
         'early data, EOF is forwarded once per direction (also an early EOF with no data), any loss closes both ends. Permissions: direct-tcpip and '
         'tcpip-forward are served exactly when key options, certificate options, permitopen and the application all allow the destination, and the '
         'listener is registered and closed with the connection. SOCKS: intact, corrupted and truncated SOCKS4/4a/5 requests in any chunking never '
         'raise into the loop, open at most one tunnel to the decoded destination, and relay trailing bytes as payload; a local forwarder opens every accepted connection to exactly the configured destination (dynamic port = the port really bound).',
    note='Real sockets/UNIX paths/listener release by the OS, X11 and agent forwarding, and streamlocal variants are outside; the relay history is '
         'bounded to 5 events. Trusted: CrossHair, z3, recording transports and oracles in props/C20.py.')
