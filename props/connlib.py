"""Shared helpers for connection-level harnesses (C01-C06, C10, C11)"""

from asyncssh.misc import DisconnectError
from asyncssh.packet import SSHPacket, UInt32

from vf.stubs import mkconn, MiniLoop


def frame(payload: bytes, blocksize: int = 8, enchdr: int = 5) -> bytes:
    """Independent RFC 4253 section 6 framing (no asyncssh code): uint32
    length, byte padlen, payload, padding >= 4 making the total a multiple of
    the block size."""
    padlen = blocksize - (enchdr + len(payload)) % blocksize
    if padlen < 4:
        padlen += blocksize
    body = bytes([padlen]) + payload + bytes(padlen)
    return len(body).to_bytes(4, 'big') + body


class Outcome:
    def __init__(self):
        self.processed = []      # (handler name, pkttype, payload after type byte)
        self.sent = []           # packet types sent
        self.closed = []         # exceptions given to _force_close
        self.internal = 0


def instrument(conn, out=None, handlers=True):
    """Record what reaches packet handlers / what is sent / how the connection
    ends, without changing the receive path itself."""
    out = out or Outcome()
    conn._reset_keepalive_timer = lambda: None
    orig_force = conn._force_close

    def force_close(exc):
        out.closed.append(exc)
        conn._transport = None

    conn._force_close = force_close

    def internal_error(*a, **k):
        out.internal += 1
        conn._transport = None

    conn.internal_error = internal_error
    return out


def deliver(conn, data: bytes):
    """what SSHConnection.data_received does (minus the tunnel case)"""
    conn._inpbuf += data
    conn._recv_data()


def pframe(conn, payload: bytes) -> bytes:
    """frame a plaintext payload for conn's current receive parameters (block size, MAC size; identity cipher)"""
    return frame(payload, conn._recv_blocksize) + bytes(conn._recv_macsize)
