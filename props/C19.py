"""C19 - Stream and process APIs deliver what was sent, split as asked"""

import asyncio
import re

from asyncssh import channel as CH
from asyncssh import stream as ST
from asyncssh.constants import EXTENDED_DATA_STDERR
from asyncssh.misc import ProtocolError
from asyncssh.packet import SSHPacket, UInt32, String, Boolean

from vf.core import Ob, R, B
from vf.rt import assume, pick, conc, cb, notrace
from vf.stubs import MiniLoop, NullLogger
from props.chanlib import mkchan

from props.C08 import write_pause

ASSUMPTIONS = [
    'the data stream is concrete (distinct bytes); what is symbolic is how it is cut into chunks, whether the reader task gets to run between '
    'arrivals, the read size, EOF / connection loss and their position; regular expressions therefore run on concrete bytes',
    'separator sets contain no separator that is a proper substring of another (for those the first match is inherently chunking dependent)',
    'the channel window is larger than the data (pausing at the buffer limit is C08)',
    'of process.py only the redirection helper classes for files, async files and asyncio streams are driven (with stand-in targets); pipes, sockets, '
    'process-to-process redirection and SSHCompletedProcess collection via asyncio.gather are NOT covered',
]

DATA = b'aENDcdzEND\nf'


class Chan:
    def __init__(self, loop, window=64):
        self.loop, self.window = loop, window
        self.paused = False

    def get_connection(self):
        return None

    def get_encoding(self):
        return None, 'strict'

    def get_loop(self):
        return self.loop

    def get_recv_window(self):
        return self.window

    def get_read_datatypes(self):
        return {EXTENDED_DATA_STDERR}

    def get_write_datatypes(self):
        return {EXTENDED_DATA_STDERR}

    def pause_reading(self):
        self.paused = True

    def resume_reading(self):
        self.paused = False


def _feed(loop, s, data, c1, c2, r1, r2, eof, lost):
    """deliver data in <= 3 chunks, optionally letting the loop run in between"""
    parts = [data[:c1], data[c1:c2], data[c2:]]
    flags = [r1, r2, True]
    for p, run in zip(parts, flags):
        if p:
            s.data_received(p, None)
        if run:
            loop.run(100)
    if lost:
        s.connection_lost(None)
    elif eof:
        s.eof_received()
    loop.run(100)


def _consume(loop, s, reader, limit=12):
    """task that keeps calling reader(s) and records results until EOF / error"""
    res = []

    async def task():
        for _ in range(limit):
            try:
                r = await reader(s)
            except asyncio.IncompleteReadError as e:
                res.append(('incomplete', bytes(e.partial)))
                return
            res.append(('ret', bytes(r)))
            if r == b'':
                return
        res.append(('limit',))

    loop.create_task(task())
    return res


def read_split(n: int, exact: bool, c1: int, c2: int, r0: bool, r1: bool, r2: bool, end: int) -> bool:
    """read(n) / readexactly(n) repeated to the end of the stream: the
    sequence of results depends only on the data, n and EOF - not on the
    chunking or on when the reader ran; readexactly returns exactly n bytes or
    IncompleteReadError with exactly the remainder; a reader still waiting at
    the end is waiting for bytes that never came."""
    eof, lost = end == 1, end == 2
    c1 = conc(c1, 0, len(DATA))
    c2 = conc(c2, 0, len(DATA))
    assume(c1 <= c2)
    loop = MiniLoop()
    s = ST.SSHStreamSession()
    s.connection_made(Chan(loop))
    res = _consume(loop, s, lambda s_: s_.read(None, n, exact), limit=20)
    if r0:
        loop.run(100)
    _feed(loop, s, DATA, c1, c2, r1, r2, eof, lost)
    if loop.exceptions:
        return False
    got = b''.join(x[1] for x in res if len(x) > 1)
    ended = eof or lost
    if exact:
        want = [('ret', DATA[i:i + n]) for i in range(0, len(DATA) - n + 1, n)]
        rem = DATA[len(want) * n:]
        if ended:
            want.append(('incomplete', rem) if rem else ('ret', b''))
            if not rem:
                # readexactly at EOF with nothing left: IncompleteReadError(b'') or b'' are both "nothing more"
                return res[:-1] == want[:-1] and res[-1] in (('incomplete', b''), ('ret', b''))
        return res == want
    # read(n): up to n bytes, at least one unless EOF; concatenation is a prefix equal to all data once ended
    for x in res:
        if x[0] != 'ret' or len(x[1]) > n:
            return False
    if ended:
        return got == DATA and res[-1] == ('ret', b'') and all(x[1] for x in res[:-1])
    return got == DATA and all(x[1] for x in res)


SEPS = [b'\n', b'ND', (b'END', b'z'), (b'zE', b'\n', b'cd'), re.compile(b'E+N?D'), b'Q']


def _ref_split(data, sep, ended):
    if isinstance(sep, bytes):
        pat = re.compile(re.escape(sep))
    elif isinstance(sep, tuple):
        pat = re.compile(b'|'.join(re.escape(x) for x in sep))
    else:
        pat = sep
    out = []
    pos = 0
    while True:
        m = pat.search(data, pos)
        if not m:
            break
        out.append(('ret', data[pos:m.end()]))
        pos = m.end()
    if ended:
        out.append(('incomplete', data[pos:]))
    return out


def readuntil_split(si: int, c1: int, c2: int, r0: bool, r1: bool, r2: bool, end: int) -> bool:
    """readuntil(separator) repeated to the end: results are exactly the
    reference split of the *unchunked* data at the first separator matches
    (single, multiple, regex, spanning chunk boundaries), then
    IncompleteReadError with exactly the remainder at EOF."""
    sep = pick(SEPS, si)
    eof, lost = end == 1, end == 2
    c1 = conc(c1, 0, len(DATA))
    c2 = conc(c2, 0, len(DATA))
    assume(c1 <= c2)
    loop = MiniLoop()
    s = ST.SSHStreamSession()
    s.connection_made(Chan(loop))
    if isinstance(sep, re.Pattern):
        reader = lambda s_: s_.readuntil(sep, None, 3)
    else:
        reader = lambda s_: s_.readuntil(sep, None)
    res = _consume(loop, s, reader, limit=20)
    if r0:
        loop.run(100)
    _feed(loop, s, DATA, c1, c2, r1, r2, eof, lost)
    if loop.exceptions:
        return False
    return res == _ref_split(DATA, sep, eof or lost)


def readline_split(c1: int, c2: int, r0: bool, r1: bool, eof: bool) -> bool:
    """readline(): lines including the newline, the last partial line at EOF, then b''"""
    data = b'ab\n\ncd\nef'
    c1 = conc(c1, 0, len(data))
    c2 = conc(c2, 0, len(data))
    assume(c1 <= c2)
    loop = MiniLoop()
    s = ST.SSHStreamSession()
    s.connection_made(Chan(loop))
    res = _consume(loop, s, lambda s_: s_.readline(None), limit=20)
    if r0:
        loop.run(100)
    _feed(loop, s, data, c1, c2, r1, False, eof, False)
    want = [('ret', b'ab\n'), ('ret', b'\n'), ('ret', b'cd\n')]
    if eof:
        want += [('ret', b'ef'), ('ret', b'')]
    return res == want and not loop.exceptions


def drain_events(e0: int, e1: int, e2: int, e3: int, exc: bool) -> bool:
    """drain(): returns only when writing is not paused, fails once the
    channel is gone (with its exception, or BrokenPipeError if still paused);
    never left hanging after resume / connection loss - also when EOF was
    received first."""
    loop = MiniLoop()
    s = ST.SSHStreamSession()
    s.connection_made(Chan(loop))
    out = []

    async def drainer():
        try:
            await s.drain(None)
            out.append('ok')
        except BrokenPipeError:
            out.append('brokenpipe')
        except ProtocolError:
            out.append('exc')

    paused = False
    lost = False
    started = False
    evs = [e0, e1, e2, e3]
    for e in evs:
        # 0 pause_writing, 1 resume_writing, 2 eof_received, 3 connection_lost, 4 start drain
        if e == 0:
            s.pause_writing()
            paused = True
        elif e == 1:
            s.resume_writing()
            paused = False
        elif e == 2:
            if not lost:
                s.eof_received()
        elif e == 3:
            if not lost:
                s.connection_lost(ProtocolError('gone') if exc else None)
                lost = True
        just = False
        if e == 4 and not started:
            loop.create_task(drainer())
            started = just = True
        loop.run(50)
        if started and not out and not (paused and not lost):
            return False            # drain still pending although writable or gone
        if just and out and paused and not lost:
            return False            # returned while paused
    if loop.exceptions:
        return False
    if not started:
        return True
    if not out:
        return paused and not lost
    r = out[0]
    if r == 'exc':
        return lost and exc
    if r == 'brokenpipe':
        return lost and not exc
    return True


def exit_with_output(k0: int, k1: int, k2: int, k3: int, status: int, limit: int = 0) -> bool:
    """Client session: for every order of {stdout data, stderr data, exit
    status, EOF} followed by CLOSE, the exit status is recorded and reading to
    EOF returns the complete stdout and stderr - also when the stream buffer
    limit is so small that the session pauses the channel after the first
    chunk and the rest waits in the channel's own receive buffer when CLOSE
    arrives."""
    loop = MiniLoop()
    sess = ST.SSHClientStreamSession()
    chan, conn, _ = mkchan(cls=CH.SSHClientChannel, window=64, pktsize=32, loop=loop, session=sess)
    sess.connection_made(chan)
    if limit:
        sess._limit = limit          # (normally the channel's receive window)
    rd = ST.SSHReader(sess, chan)
    er = ST.SSHReader(sess, chan, EXTENDED_DATA_STDERR)
    kinds = [k0, k1, k2, k3]
    assume(sorted(kinds) == [0, 1, 2, 3])          # a permutation of the four events
    out_d, err_d = b'out-data', b'err!'
    eof_seen = False
    for k in kinds:
        try:
            if k == 0:
                chan._process_data(94, 0, SSHPacket(String(out_d)))
            elif k == 1:
                chan._process_extended_data(95, 0, SSHPacket(UInt32(1) + String(err_d)))
            elif k == 2:
                chan._process_request(98, 0, SSHPacket(String('exit-status') + Boolean(False) + UInt32(status)))
            else:
                chan._process_eof(96, 0, SSHPacket(b''))
                eof_seen = True
        except ProtocolError:
            if not (eof_seen and k in (0, 1)):
                return False
            # data after EOF is a protocol error: the session would end; nothing more to check
            return True
        loop.run(50)
    chan._process_close(97, 0, SSHPacket(b''))
    loop.run(50)
    res = {}

    async def collect_out():
        res['out'] = await rd.read()

    async def collect_err():
        res['err'] = await er.read()

    # both streams are read concurrently (as communicate()/wait() do): reading them one after the other can block on a full buffer
    loop.create_task(collect_out())
    loop.create_task(collect_err())
    loop.run(200)
    if loop.exceptions or 'err' not in res or 'out' not in res:
        return False
    return res['out'] == out_d and res['err'] == err_d and chan.get_exit_status() == (status & 0xff) \
        and chan.get_returncode() == (status & 0xff)


# ---------------------------------------------------------------- process.py redirection writers / readers

import importlib
PR = importlib.import_module('asyncssh.process')


class _Proc:
    """SSHProcess stand-in for the redirection helpers"""

    def __init__(self, loop):
        self.loop = loop
        self.log = []
        self.cleanup = []
        outer = self

        class Conn:
            def create_task(self, coro, *a):
                return loop.create_task(coro)

        class Chan:
            def get_connection(self):
                return Conn()

        self.channel = Chan()

    def feed_data(self, data, datatype):
        self.log.append(('data', data))

    def feed_eof(self, datatype):
        self.log.append(('eof',))

    def feed_close(self, datatype):
        self.log.append(('close',))

    def pause_feeding(self, datatype):
        self.log.append(('pause',))

    def resume_feeding(self, datatype):
        self.log.append(('resume',))

    def add_cleanup_task(self, coro):
        self.cleanup.append(self.loop.create_task(coro))


class _AFile:
    """aiofiles-style async file"""

    def __init__(self, log, content=b''):
        self.log, self.content, self.pos = log, content, 0

    async def write(self, data):
        self.log.append(('w', bytes(data)))
        return len(data)

    async def read(self, n):
        d = self.content[self.pos:self.pos + n]
        self.pos += len(d)
        return d

    async def close(self):
        self.log.append(('close',))


class _SFile:
    def __init__(self, log, content=b''):
        self.log, self.content, self.pos = log, content, 0

    def write(self, data):
        self.log.append(('w', bytes(data)))

    def read(self, n):
        d = self.content[self.pos:self.pos + n]
        self.pos += len(d)
        return d

    def close(self):
        self.log.append(('close',))


class _SW:
    """asyncio.StreamWriter stand-in"""

    def __init__(self, log):
        self.log = log

    def write(self, data):
        self.log.append(('w', bytes(data)))

    async def drain(self):
        return None

    def write_eof(self):
        self.log.append(('close',))


WCHUNKS = ['ab', '', 'c', '\u00e9x']


def redirect_writers(kind: int, text: bool, n: int, c0: int, c1: int, c2: int, r0: bool, r1: bool, eof: bool) -> bool:
    """stdout/stderr redirection targets (file, aiofiles-style async file,
    asyncio stream): for any sequence of up to three chunks - including empty
    ones, which a text decoder produces for a packet holding only part of a
    character - the target receives exactly the bytes in order, is closed /
    EOF'ed exactly once after the last byte, and the clean-up the process waits
    for completes."""
    from vf.stubs import AsyncioShim
    kind = conc(kind, 0, 2)
    text, r0, r1, eof = cb(text), cb(r0), cb(r1), cb(eof)
    n = conc(n, 0, 3)
    chunks = [pick(WCHUNKS, c) for c in (c0, c1, c2)][:n]
    with notrace():
        loop = MiniLoop()
        saved = PR.asyncio
        PR.asyncio = AsyncioShim(loop)
        try:
            proc = _Proc(loop)
            log = []
            enc = 'utf-8' if text else None
            data = chunks if text else [c.encode('utf-8') for c in chunks]
            if kind == 0:
                w = PR._FileWriter(_SFile(log), True, enc, 'strict')
            elif kind == 1:
                w = PR._AsyncFileWriter(proc, _AFile(log), True, None, enc, 'strict')
            else:
                w = PR._StreamWriter(proc, _SW(log), True, None, enc, 'strict')
            for i, d in enumerate(data):
                w.write(d)
                if (i == 0 and r0) or (i == 1 and r1):
                    loop.run(50)
            if eof:
                w.write_eof()
            else:
                w.close()
            loop.run(200)
        finally:
            PR.asyncio = saved
        if loop.exceptions or loop.unretrieved():
            return False
        want = b''.join(c.encode('utf-8') for c in chunks)
        got = b''.join(x[1] for x in log if x[0] == 'w')
        closes = [i for i, x in enumerate(log) if x[0] == 'close']
        if got != want or len(closes) != 1 or closes[0] != len(log) - 1:
            return False
        return all(t.done() for t in proc.cleanup) and not loop.pending()


def redirect_readers(kind: int, size: int, bufsize: int, pause_at: int) -> bool:
    """stdin redirection sources (file, async file): all bytes are fed in
    order, then EOF exactly once - also when feeding is paused and resumed in
    the middle."""
    from vf.stubs import AsyncioShim
    kind = conc(kind, 0, 1)
    size = conc(size, 0, 7)
    bufsize = conc(bufsize, 1, 4)
    pause_at = conc(pause_at, -1, 3)
    with notrace():
        loop = MiniLoop()
        saved = PR.asyncio
        PR.asyncio = AsyncioShim(loop)
        try:
            proc = _Proc(loop)
            content = bytes(range(65, 65 + size))
            log = []
            if kind == 0:
                r = PR._FileReader(proc, _SFile(log, content), bufsize, None, None, 'strict')
            else:
                r = PR._AsyncFileReader(proc, _AFile(log, content), bufsize, None, None, 'strict')
            paused = [False]
            orig = proc.feed_data

            def feed_data(data, datatype):
                orig(data, datatype)
                if len([x for x in proc.log if x[0] == 'data']) - 1 == pause_at and not paused[0]:
                    paused[0] = True
                    r.pause_reading()

            proc.feed_data = feed_data
            r.feed()
            loop.run(100)
            if paused[0]:
                r.resume_reading()
                loop.run(100)
        finally:
            PR.asyncio = saved
        if loop.exceptions or loop.unretrieved():
            return False
        got = b''.join(x[1] for x in proc.log if x[0] == 'data')
        eofs = [i for i, x in enumerate(proc.log) if x[0] == 'eof']
        return got == content and len(eofs) == 1 and eofs[0] == len(proc.log) - 1


OBLIGATIONS = [
    Ob('read_split', read_split,
       sym=dict(c1=R(0, 12), c2=R(0, 12), r1=B, r2=B),
       shards=dict(n=[1, 4, 20], exact=[True, False], r0=[True, False], end=[0, 1]),
       thorough_shards=dict(n=[1, 2, 3, 4, 5, 7, 8, 11, 12, 13, 20], exact=[True, False], r0=[True, False], end=[0, 1, 2]),
       timeout=200, thorough_timeout=600,
       functions=[ST.SSHStreamSession.read, ST.SSHStreamSession.data_received, ST.SSHStreamSession.eof_received,
                  ST.SSHStreamSession.connection_lost, ST.SSHStreamSession._block_read, ST.SSHStreamSession._unblock_read],
       bounds='12-byte stream in <= 3 chunks at any two cut positions; n in {1,4,20} (thorough 11 values); reader scheduled before/between/after arrivals; EOF, connection loss or neither'),
    Ob('readuntil_split', readuntil_split,
       sym=dict(c1=R(0, 12), c2=R(0, 12), r1=B, r2=B),
       shards=dict(si=[0, 1, 2, 3, 4, 5], r0=[True, False], end=[0, 1]),
       thorough_shards=dict(si=[0, 1, 2, 3, 4, 5], r0=[True, False], end=[0, 1, 2]),
       timeout=200, thorough_timeout=600,
       functions=[ST.SSHStreamSession.readuntil],
       bounds='separators: 1 byte, 2 bytes, two tuples of different lengths, a regex with max_separator_len, one that never occurs; any two cuts; any reader scheduling; EOF/loss/neither'),
    Ob('readline_split', readline_split,
       sym=dict(c1=R(0, 9), c2=R(0, 9), r0=B, r1=B, eof=B), timeout=120,
       functions=[ST.SSHStreamSession.readline, ST.SSHStreamSession.readuntil],
       bounds='9-byte text with an empty line and an unterminated last line, any two cuts'),
    Ob('drain_events', drain_events,
       sym=dict(e0=R(0, 4), e1=R(0, 4), e2=R(0, 4), e3=R(0, 4), exc=B), timeout=150,
       functions=[ST.SSHStreamSession.drain, ST.SSHStreamSession.pause_writing, ST.SSHStreamSession.resume_writing,
                  ST.SSHStreamSession.connection_lost, ST.SSHStreamSession._unblock_drain],
       bounds='4 events from {pause_writing, resume_writing, eof_received, connection_lost(exc?), start drain} in any order'),
    Ob('redirect_writers', redirect_writers,
       sym=dict(n=R(0, 3), c0=R(0, 3), c1=R(0, 3), c2=R(0, 3), r0=B, r1=B, eof=B),
       shards=dict(kind=[0, 1, 2], text=[True, False]), timeout=200,
       functions=[PR._FileWriter.write, PR._AsyncFileWriter._writer, PR._AsyncFileWriter.write, PR._StreamWriter._feed,
                  PR._StreamWriter.write],
       bounds='file / async file / stream targets, text or bytes, up to 3 chunks from {ab, empty, c, non-ASCII}, loop running or not between writes, write_eof or close'),
    Ob('redirect_readers', redirect_readers, sym=dict(kind=R(0, 1), size=R(0, 7), bufsize=R(1, 4), pause_at=R(-1, 3)),
       shards=dict(kind=[0, 1]), timeout=200,
       functions=[PR._FileReader.feed, PR._AsyncFileReader._feed],
       bounds='file / async file sources of 0..7 bytes, buffer size 1..4, feeding paused after the k-th chunk (k in 0..3) or never'),
    Ob('exit_with_output', exit_with_output,
       sym=dict(k0=R(0, 3), k1=R(0, 3), k2=R(0, 3), k3=R(0, 3)), shards=dict(status=[0, 3, 256 + 7], limit=[0, 1, 10]), timeout=150,
       functions=[CH.SSHClientChannel._process_exit_status_request, CH.SSHChannel._process_request,
                  CH.SSHChannel._process_close, CH.SSHChannel._process_eof, ST.SSHReader.read],
       bounds='all 24 orders of {stdout data, stderr data, exit-status, EOF} then CLOSE; status in {0,3,263}; stream buffer limit in {window, 1, 10} bytes (the small ones make the session pause the channel)'),
    Ob('drain_resume', write_pause,
       sym=dict(n1=R(0, 3), n2=R(0, 3), w=R(0, 3), a1=R(0, 4), a2=R(0, 6)),
       shards=dict(hl=[0, 1, 3]), timeout=300,
       functions=[CH.SSHChannel._pause_resume_writing, CH.SSHChannel.set_write_buffer_limits],
       bounds='same harness as C08.write_pause for the limits (0,0), (1,0), (3,0) - the "drain() waits until everything is flushed" settings: a paused writer (drain() blocked) is resumed as soon as the buffer has drained to the low-water mark'),
]

MANIFEST = dict(
    engines='A',
    technique='bounded symbolic execution (CrossHair/z3) of the real SSHStreamSession read/readexactly/readuntil/readline/drain coroutines on a FIFO loop model with symbolic chunk boundaries and reader scheduling',
    text='Bounded symbolic verification of the stream API: for a concrete stream cut at any two positions, with the reader task scheduled before, '
         'between or after arrivals and with EOF, connection loss or neither, repeated read(n)/readexactly(n)/readuntil(sep)/readline() return '
         'exactly the reference split of the unchunked data (separators: single, multi-byte spanning a cut, tuples of different lengths, regex), with '
         'IncompleteReadError carrying exactly the remainder; drain() never hangs after resume/loss (also after EOF) and fails when the channel is '
         'gone; for all 24 orders of stdout/stderr/exit-status/EOF before CLOSE the exit status is recorded and both outputs are complete, also when the stream buffer limit makes the session pause the channel; a writer paused by the high-water mark is resumed when the buffer drains to the low-water mark.',
    note='of process.py only the file / async-file / stream redirection helpers are covered (stand-in targets); pipes, sockets, process chaining and SSHCompletedProcess collection are not; text '
         'mode decoding is C07; stream lengths <= 12 bytes, <= 3 chunks. Trusted: CrossHair, z3, the loop model, reference splitter in props/C19.py.')
