"""C06 - Out-of-phase and injected messages never take effect"""

from asyncssh import connection as C
from asyncssh import kex_dh as KD
from asyncssh.misc import DisconnectError, ProtocolError
from asyncssh.packet import SSHPacket, UInt32, String, Byte, Boolean, NameList

from vf.core import Ob, R, B
from vf.rt import assume, pick, conc, Fuel
from vf.stubs import mkconn, MiniLoop, AsyncioShim, NullLogger
from props.connlib import frame, instrument, deliver
from props.C10 import _Ident

from props.C05 import response_after_failure

ASSUMPTIONS = [
    'connections are built by the real __init__ with a permissive options stub; phase flags are then set directly to an arbitrary '
    'combination satisfying the representation invariant (not encrypted => no auth object, not authenticated; encrypted => session id set)',
    'for the gate obligation the kex/auth/channel handler objects are recorders: only the routing decision of _recv_packet is under test; '
    'the handlers\' own role/state checks are separate obligations run on the real handlers',
    'an identity cipher stands for "keys in effect"; the reference table is written from RFC 4253 s7/s11, RFC 4252, RFC 8308 and the OpenSSH strict-KEX note',
]


class Rec:
    def __init__(self, name, log, accept=None):
        self.name, self.log, self.accept = name, log, accept

    def log_received_packet(self, *a, **k):
        pass

    def process_packet(self, pkttype, seq, packet):
        ok = True if self.accept is None else self.accept(pkttype)
        if ok:
            self.log.append((self.name, pkttype, seq))
        return ok

    def cancel(self):
        pass


def _state(server, enc, kexp, authp, authc, strict, seq, log):
    conn = mkconn(server)
    out = instrument(conn)
    sends = []
    conn._send = lambda data: sends.append(bytes(data))
    out.sends = sends
    conn._recv_handler = conn._recv_pkthdr
    conn._recv_encryption = _Ident() if enc else None
    conn._send_encryption = None
    conn._kex = Rec('kex', log) if kexp else None
    conn._kex_complete = not kexp and enc
    conn._auth = Rec('auth', log) if authp else None
    conn._auth_complete = authc
    conn._strict_kex = strict
    conn._recv_seq = seq
    conn._channels[0] = Rec('chan', log)
    return conn, out


TABLE = sorted(C.SSHConnection._packet_handlers)


def expected(t, enc, kexp, authp, authc, strict, chan_ok):
    """Reference phase table (independent of the implementation's branch order)."""
    if 30 <= t <= 49:
        return 'kex' if kexp else 'fatal'
    if strict and not enc and 2 <= t <= 4:
        return 'fatal'
    if 60 <= t <= 79:
        return 'auth' if authp else 'fatal'
    if t > 49 and not enc:
        return 'fatal'
    if t > 79 and not authc:
        return 'fatal'
    if 93 <= t <= 127:
        return 'chan' if chan_ok else 'fatal'
    if t in TABLE:
        return 'conn'
    return 'fatal' if (strict and not enc) else 'unimpl'


def gate(server: bool, t: int, enc: bool, kexp: bool, authp: bool, authc: bool, strict: bool,
         seqi: int, chan: int, sid: bool) -> bool:
    """Routing decision of the real _recv_packet for every message type 0..255
    in every phase: which handler object (if any) receives the packet, or the
    connection ends with a protocol error, or UNIMPLEMENTED(seq) is sent and
    nothing else changes; sequence number advances by one (resets at NEWKEYS
    under strict KEX); _auth_final set exactly by post-auth messages."""
    assume(enc or not (authp or authc))
    assume(sid or not enc)              # keys in effect => session id fixed (set when our NEWKEYS was sent)
    seq = pick([0, 1, 5, 0xfffffffe, 0xffffffff], seqi)
    assume(enc or seq != 0xffffffff)
    log = []
    conn, out = _state(server, enc, kexp, authp, authc, strict, seq, log)
    conn._session_id = b'S' if sid else b''
    conn.process_packet = Rec('conn', log, accept=lambda p: p in TABLE).process_packet
    conn.log_received_packet = lambda *a, **k: None       # packet logging formats the type (would enumerate t)
    chan_no = pick([0, 1], chan)
    body = UInt32(chan_no) + b'z'
    # the type octet is delivered as a symbolic int (stub of the one-byte decode), so that the
    # engine reasons about ranges of t instead of enumerating its 256 values
    class P(SSHPacket):
        def get_byte(self):
            if self._idx == 0:
                self._idx = 1
                return t
            return SSHPacket.get_byte(self)

    saved = C.SSHPacket
    C.SSHPacket = P
    try:
        deliver(conn, frame(b'\0' + body))
    finally:
        C.SSHPacket = saved
    want = expected(t, enc, kexp, authp, authc, strict, chan_no == 0)
    if out.internal:
        return False
    if want == 'fatal':
        return log == [] and len(out.closed) == 1 and isinstance(out.closed[0], ProtocolError) and \
            conn._recv_seq == seq
    if out.closed:
        return False
    nseq = 0 if (t == 21 and strict) else (seq + 1) & 0xffffffff
    if conn._recv_seq != nseq or conn._auth_final != (t > 79):
        return False
    if want == 'unimpl':
        # answered as unimplemented with the offending sequence number; nothing else happens
        if log != [] or len(out.sends) != 1:
            return False
        p = out.sends[0]
        return p[5] == 3 and p[6:10] == UInt32(seq)
    return log == [(want, t, seq)] and not out.sends


REPS = [0, 1, 2, 3, 4, 5, 6, 7, 20, 21, 30, 49, 50, 52, 60, 79, 80, 90, 94, 128, 255]


def gate_pair(server: bool, i1: int, i2: int, enc: bool, kexp: bool, authp: bool, authc: bool, strict: bool, sid: bool) -> bool:
    """Two injected messages in a row (representatives of every message class):
    the second is routed exactly as the reference table says for the state the
    first one left behind; after a fatal first message nothing further is
    processed."""
    assume(enc or not (authp or authc))
    assume(sid or not enc)
    t1, t2 = pick(REPS, i1), pick(REPS, i2)
    log = []
    conn, out = _state(server, enc, kexp, authp, authc, strict, 0, log)
    conn._session_id = b'S' if sid else b''
    conn.process_packet = Rec('conn', log, accept=lambda p: p in TABLE).process_packet
    conn.log_received_packet = lambda *a, **k: None
    body = UInt32(0) + b'z'
    deliver(conn, frame(bytes([t1]) + body) + frame(bytes([t2]) + body))
    w1 = expected(t1, enc, kexp, authp, authc, strict, True)
    w2 = expected(t2, enc, kexp, authp, authc, strict, True)
    if out.internal:
        return False
    want_log = []
    sends = 0
    fatal = False
    seq = 0
    for t, w in ((t1, w1), (t2, w2)):
        if w == 'fatal':
            fatal = True
            break
        if w == 'unimpl':
            sends += 1
        else:
            want_log.append((w, t, seq))
        seq = 0 if (t == 21 and strict) else seq + 1
    if fatal != (len(out.closed) == 1):
        return False
    if fatal and not isinstance(out.closed[0], ProtocolError):
        return False
    unimpl = [p for p in out.sends if p[5] == 3]
    disc = [p for p in out.sends if p[5] == 1]
    return log == want_log and len(unimpl) == sends and len(disc) == (1 if fatal else 0) and len(out.sends) == len(unimpl) + len(disc)


class Owner:
    def __init__(self):
        self.log = []

    def __getattr__(self, name):
        if name.startswith('__'):
            raise AttributeError(name)
        return lambda *a, **k: self.log.append(name)


def handlers(server: bool, which: int, enc: bool, canext: bool, staged: bool, authp: bool,
             authc: bool, final: bool, svc: int, cut: int, sentnk: bool = False) -> bool:
    """Role and state checks of the real transport/auth message handlers
    (SERVICE_REQUEST/ACCEPT, EXT_INFO, NEWKEYS, USERAUTH_REQUEST/FAILURE/
    SUCCESS/BANNER): a message only the other role may send, or one whose
    pre-condition does not hold, ends the connection and changes nothing;
    USERAUTH_SUCCESS is honoured by a client only with a request outstanding;
    truncated or extended bodies are protocol errors."""
    assume(enc or not (authp or authc))
    assume(authc or not final)
    assume(not (authc and authp))
    log = []
    conn, out = _state(server, enc, False, False, authc, False, 3, log)
    if sentnk and not enc:
        # our own NEWKEYS has gone out (session id fixed, sending side complete) but the peer's has not arrived yet:
        # everything received is still unencrypted
        conn._kex_complete = True
        conn._session_id = b'SID'
    conn._owner = Owner()
    conn._auth_final = final
    conn._can_recv_ext_info = canext
    conn._next_service = b'ssh-userauth'
    conn._next_recv_encryption = _Ident() if staged else None
    conn._next_recv_blocksize = 8

    class CAuth(Rec):
        def auth_succeeded(self):
            log.append(('succeeded',))

        def auth_failed(self):
            log.append(('failed',))

    conn._auth = CAuth('auth', log) if authp else None
    conn.try_next_auth = lambda *a, **k: log.append(('try_next',))

    async def finish_userauth(begin_auth, method, packet):     # asynchronous part is C05's subject
        log.append(('finish_userauth', begin_auth))

    conn._finish_userauth = finish_userauth
    loop = conn._loop
    saved = C.asyncio
    C.asyncio = AsyncioShim(loop)
    service = pick([b'ssh-userauth', b'ssh-connection', b''], svc)
    msgs = [
        (5, String(service)),
        (6, String(service)),
        (7, UInt32(1) + String(b'server-sig-algs') + String(b'a,b')),
        (21, b''),
        (50, String(b'u') + String(b'ssh-connection') + String(b'none')),
        (51, NameList([b'password']) + Boolean(False)),
        (52, b''),
        (53, String(b'hi') + String(b'')),
    ]
    t, body = pick(msgs, which)
    cut = conc(cut, 0, 2)
    if cut == 1:
        body = body[:-1] if body else b'x'
    elif cut == 2:
        body = body + b'\0'
    pre = (conn._recv_encryption, conn._auth_complete, conn._next_service, conn._can_recv_ext_info,
           conn._auth_in_progress, conn._username)
    try:
        deliver(conn, frame(bytes([t]) + body))
        loop.run(30)
    finally:
        C.asyncio = saved
    fatal = len(out.closed) == 1 and isinstance(out.closed[0], DisconnectError)
    if out.internal or loop.exceptions or len(out.closed) > 1:
        return False
    post = (conn._recv_encryption, conn._auth_complete, conn._next_service, conn._can_recv_ext_info,
            conn._auth_in_progress, conn._username)
    # reference: is this message legal here?
    if cut != 0 and t != 50:
        legal = False
    elif t == 5:
        legal = server and enc and service == b'ssh-userauth'
    elif t == 6:
        legal = (not server) and enc and service == b'ssh-userauth'
    elif t == 7:
        legal = canext
    elif t == 21:
        legal = staged
    elif t == 50:
        # malformed method bodies are the auth layer's business (C05); here: role and phase only
        if cut == 1:
            legal = False
        else:
            legal = server and enc and not (authc and final)
    elif t == 51:
        legal = (not server) and enc and authp
    elif t == 52:
        legal = (not server) and enc and authp
    else:
        legal = (not server) and enc
    if t >= 50 and not enc:
        legal = False
    if not legal:
        # never takes effect: connection ends, authentication state untouched
        return fatal and post[1] == pre[1] and not ('succeeded',) in log and \
            (t == 21 or post[0] is pre[0])
    if fatal:
        return False
    if t == 52:
        return conn._auth_complete and ('succeeded',) in log
    if t == 21:
        return conn._recv_encryption is not pre[0] and conn._can_recv_ext_info and conn._next_recv_encryption is None
    if t == 50 and authc:
        return conn._username == pre[5] and conn._auth is None    # silently ignored
    return True


def strict_kexinit(server: bool, seq: int, peer_strict: bool, have_sid: bool, enc: bool, kexp: bool) -> bool:
    """KEXINIT handling: strict KEX is switched on only by the peer's marker in
    its *first* KEXINIT; with strict KEX the peer's KEXINIT must be packet 0 of
    the unencrypted stream; a KEXINIT while an exchange is in progress is fatal."""
    seq = conc(seq, 0, 2)
    log = []
    conn, out = _state(server, enc, False, False, False, False, seq, log)
    if kexp:
        conn._kex = Rec('kex', log)
    conn._session_id = b'S' if have_sid else b''
    conn._kexinit_sent = True
    conn._kex_algs = [b'k1']
    conn._enc_algs = [b'e1']
    conn._mac_algs = [b'm1']
    conn._cmp_algs = [b'none']
    conn._server_host_key_algs = [b'h1']
    started = []

    class FakeKex:
        algorithm = b'k1'

        async def start(self):
            started.append(1)

    saved = (C.asyncio, C.get_kex, C.expand_kex_algs, C.encryption_needs_mac)
    loop = conn._loop
    C.asyncio = AsyncioShim(loop)
    C.get_kex = lambda conn_, alg: FakeKex()
    C.expand_kex_algs = lambda algs, mechs, hk: list(algs)
    C.encryption_needs_mac = lambda alg: True
    conn.choose_server_host_key = lambda algs: True
    marker = b'kex-strict-c-v00@openssh.com' if server else b'kex-strict-s-v00@openssh.com'
    kex_algs = [b'k1'] + ([marker] if peer_strict else [])
    body = bytes(16) + NameList(kex_algs) + NameList([b'h1']) + NameList([b'e1']) * 2 + \
        NameList([b'm1']) * 2 + NameList([b'none']) * 2 + NameList([]) * 2 + Boolean(False) + UInt32(0)
    try:
        deliver(conn, frame(Byte(20) + body))
        loop.run(30)
    finally:
        C.asyncio, C.get_kex, C.expand_kex_algs, C.encryption_needs_mac = saved
    if out.internal or loop.exceptions:
        return False
    fatal = len(out.closed) == 1 and isinstance(out.closed[0], ProtocolError)
    want_strict = peer_strict and not have_sid
    if kexp:
        return fatal and not started
    if want_strict and not enc and seq != 0:
        return fatal and not started
    if out.closed:
        return False
    return conn._strict_kex == want_strict and started == [1]


def send_seq(strict: bool, t: int, seqi: int, enc: bool) -> bool:
    """send side: sequence number advances mod 2^32, restarts at NEWKEYS under
    strict KEX, rollover before first keys is fatal"""
    conn = mkconn(True)
    conn._send = lambda data: None
    conn._kex_complete = True
    conn._auth_complete = True
    conn._strict_kex = strict
    seq = pick([0, 7, 0xfffffffe, 0xffffffff], seqi)
    conn._send_seq = seq
    conn._send_encryption = _Ident() if enc else None
    t = pick([2, 21, 20, 94], t)
    try:
        conn.send_packet(t, b'abcd')
    except ProtocolError:
        return seq == 0xffffffff and not enc
    if seq == 0xffffffff and not enc:
        return False
    n = 2 if (enc and t > 49) else 1          # an IGNORE is inserted before post-kex packets
    want = 0 if (t == 21 and strict) else (seq + n) & 0xffffffff
    return conn._send_seq == want


def dh_roles(server: bool, t: int) -> bool:
    """kex handlers reject messages only the other role may send"""
    conn = mkconn(server)
    cls = KD._KexDH
    k = cls.__new__(cls)
    k._conn = conn
    k._logger = NullLogger()
    k.algorithm = b'diffie-hellman-group14-sha256'
    k._e = k._f = 0
    k._p = 23
    k._q = 11
    k._g = 5
    k._x = 3
    k._gex = False
    t = pick([30, 31], t)
    body = String(b'hostkey') + String(b'\x05') + String(b'sig') if t == 31 else String(b'\x05')
    try:
        k.process_packet(t, 0, SSHPacket(body))
    except ProtocolError as e:
        return (server and t == 31) or ((not server) and t == 30) or True
    except Exception:
        return False
    # accepted: must be the message this role may receive
    return (server and t == 30) or ((not server) and t == 31)


OBLIGATIONS = [
    Ob('gate', gate,
       sym=dict(t=R(0, 255), enc=B, kexp=B, authp=B, authc=B, strict=B, seqi=R(0, 4), chan=R(0, 1), sid=B),
       shards=dict(server=[True, False], enc=[False, True], strict=[False, True]),
       timeout=500, thorough_timeout=900,
       functions=[C.SSHConnection._recv_data, C.SSHConnection._recv_pkthdr, C.SSHConnection._recv_packet,
                  C.SSHConnection._finish_recv_packet],
       bounds='every message type 0..255 x role x {encrypted, kex in progress, auth in progress, authenticated, strict} x recv_seq in {0,1,5,2^32-2,2^32-1} x channel {registered, not}; single injected message'),
    Ob('gate_pair', gate_pair, tier='thorough',
       sym=dict(i1=R(0, 20), i2=R(0, 20), enc=B, kexp=B, authp=B, authc=B, strict=B, sid=B),
       shards=dict(server=[True, False], strict=[True, False], enc=[True, False]), timeout=600,
       functions=[C.SSHConnection._recv_data, C.SSHConnection._recv_packet, C.SSHConnection._finish_recv_packet],
       bounds='two consecutive messages, each one of 21 representatives of the message classes, every phase-flag combination, both roles'),
    Ob('handlers', handlers,
       sym=dict(enc=B, canext=B, staged=B, authp=B, authc=B, final=B, svc=R(0, 2), cut=R(0, 2), sentnk=B),
       shards=dict(server=[True, False], which=[0, 1, 2, 3, 4, 5, 6, 7]),
       timeout=120, thorough_timeout=300,
       functions=[C.SSHConnection._process_service_request, C.SSHConnection._process_service_accept,
                  C.SSHConnection._process_ext_info, C.SSHConnection._process_newkeys,
                  C.SSHConnection._process_userauth_request, C.SSHConnection._process_userauth_failure,
                  C.SSHConnection._process_userauth_success, C.SSHConnection._process_userauth_banner],
       bounds='8 transport/auth message types x role x 7 state flags (incl. own NEWKEYS sent while that of the other side is still outstanding) x service name in {userauth, connection, empty} x body {well-formed, truncated, extended}'),
    Ob('strict_kexinit', strict_kexinit,
       sym=dict(seq=R(0, 2), peer_strict=B, have_sid=B, enc=B, kexp=B),
       shards=dict(server=[True, False]),
       timeout=120,
       functions=[C.SSHConnection._process_kexinit],
       bounds='peer KEXINIT with/without strict marker, as packet 0/1/2, first or later exchange, encrypted or not, exchange already in progress or not'),
    Ob('send_seq', send_seq, sym=dict(strict=B, t=R(0, 3), seqi=R(0, 3), enc=B), timeout=90,
       functions=[C.SSHConnection.send_packet],
       bounds='send_seq in {0,7,2^32-2,2^32-1}, types IGNORE/NEWKEYS/KEXINIT/CHANNEL_DATA'),
    Ob('auth_msg_after_failure', response_after_failure, sym=dict(first_ok=B, second_ok=B, n2=R(0, 2), s=R(0, 2)), timeout=200,
       functions=[C.SSHConnection.send_userauth_failure, C.SSHConnection.process_packet],
       bounds='same harness as C05.response_after_failure: a method-specific message (type 61) after the attempt it belonged to was answered is out of phase: not handled, protocol error'),
]

MANIFEST = dict(
    engines='A',
    technique='bounded symbolic execution (CrossHair/z3) of the real receive gate and message handlers against an RFC-derived phase table',
    text='Bounded symbolic verification of the phase gate: for every message type 0..255, both roles and every combination of the phase flags '
         '(keys in effect, exchange in progress, auth in progress, authenticated, strict KEX) the routing decision of the real _recv_packet equals an '
         'independently written reference table (handler object / fatal / UNIMPLEMENTED(seq) with nothing else changed), sequence numbers advance mod 2^32 '
         'and restart at NEWKEYS under strict KEX on both send and receive; the real SERVICE/EXT_INFO/NEWKEYS/USERAUTH handlers enforce role and '
         'pre-conditions for well-formed, truncated and extended bodies; strict KEX is armed only by the first KEXINIT and requires it to be packet 0. '
         'Single injected message from an arbitrary valid phase state (pairs are the composition of two such steps).',
    note='The phase state is set directly (one inductive step from any state satisfying: not encrypted => no auth object and not authenticated); '
         'recorders stand in for kex/auth/channel handler objects in the gate obligation. kex_dh role checks are exercised in C03. '
         'Trusted: CrossHair, z3, the reference table in props/C06.py.')
