"""C07 - Channel data arrives complete, in order, once, with EOF last"""

import codecs

from asyncssh import channel as CH
from asyncssh import connection as C
from asyncssh.constants import EXTENDED_DATA_STDERR
from asyncssh.misc import ProtocolError
from asyncssh.packet import SSHPacket, UInt32, String, Byte

from vf.core import Ob, R, B
from vf.rt import assume, pick, conc, notrace
from vf.stubs import mkconn
from props.chanlib import mkchan, split_sent, RecSession
from props.C08 import send_window
from props.connlib import frame, instrument, deliver

ASSUMPTIONS = [
    'channels are built by the real __init__ on a recording connection stub and placed in the open state directly',
    'byte channels (encoding=None) for ordering obligations; for text channels only the call discipline of the incremental '
    'encoder/decoder is checked (every chunk, in order, flushed at EOF) - the codecs themselves are C code and trusted',
    'concurrency across channels is reduced to the per-packet dispatch by recipient channel number (2 registered channels)',
    'stream segmentation below the packet layer is C02',
]

CHUNKS = [b'ab', b'C', b'dEf', b'g']
KIND = ['data', 'stderr', 'pause', 'resume', 'eof']
STATES = ['open', 'eof_pending', 'eof']


def recv_order(k0: int, k1: int, k2: int, k3: int, sstate: int, eofret: bool) -> bool:
    """Receive side: up to four events from {data, stderr data, pause, resume,
    EOF} while the local send side is open / eof_pending / eof.  The session
    sees exactly the accepted chunks, in order, each once, with its datatype;
    eof_received comes after all data, once, iff EOF arrived; data after EOF is
    a protocol error."""
    sess = RecSession(eof_ret=eofret)
    chan, conn, loop = mkchan(cls=CH.SSHClientChannel, window=64, pktsize=64, session=sess)
    chan._send_state = pick(STATES, sstate)
    if chan._send_state == 'eof_pending':
        chan._send_buf = [(bytearray(b'zz'), None)]
        chan._send_buf_len = 2
        chan._send_window = 0
    expect = []
    got_eof = False
    kinds = [k0, k1, k2, k3]
    for i in range(4):
        k = pick(KIND, kinds[i])
        if k == 'pause':
            chan.pause_reading()
        elif k == 'resume':
            chan.resume_reading()
        elif k == 'eof':
            try:
                chan._process_eof(96, 0, SSHPacket(b''))
            except ProtocolError:
                if not got_eof:
                    return False
                break
            if got_eof:
                return False
            got_eof = True
        else:
            data = CHUNKS[i]
            try:
                if k == 'data':
                    chan._process_data(94, 0, SSHPacket(String(data)))
                    dt = None
                else:
                    chan._process_extended_data(95, 0, SSHPacket(UInt32(1) + String(data)))
                    dt = EXTENDED_DATA_STDERR
            except ProtocolError:
                if not got_eof:
                    return False
                break
            if got_eof:
                return False
            expect.append(('data', data, dt))
        # at every point: what the session saw is a prefix of what was accepted
        seen = [e for e in sess.log if e[0] in ('data', 'eof')]
        if [e for e in seen if e[0] == 'data'] != expect[:len([e for e in seen if e[0] == 'data'])]:
            return False
    chan.resume_reading()
    seen = [e for e in sess.log if e[0] in ('data', 'eof')]
    want = list(expect) + ([('eof',)] if got_eof else [])
    if seen != want:
        return False
    if chan._recv_buf:
        return False
    return True


def send_eof_order(n1: int, n2: int, w: int, a1: int, a2: int, fin: int) -> bool:
    """Send side across several adjusts: data in order, each byte once, EOF /
    CLOSE exactly once and only after the last byte, for any two window
    adjusts after write_eof()/close()."""
    chan, conn, loop = mkchan(window=64, pktsize=2, fuel=40)
    chan._send_window = w
    chan._send_pktsize = 2
    d1, d2 = b'abc'[:n1], b'DEFG'[:n2]
    chan.write(d1)
    chan.write(d2)
    if fin == 1:
        chan.write_eof()
    else:
        chan.close()
    chan._process_window_adjust(93, 0, SSHPacket(UInt32(a1)))
    if chan._send_chan is not None:
        chan._process_window_adjust(93, 0, SSHPacket(UInt32(a2)))
    pk = split_sent(conn.sent)
    out = b''.join(p[2] for p in pk if p[0] == 'data')
    tail = [p[0] for p in pk if p[0] != 'data']
    total = d1 + d2
    budget = w + a1 + a2
    if out != total[:min(len(total), budget)]:
        return False
    done = len(out) == len(total)
    fink = 'eof' if fin == 1 else 'close'
    if tail != ([fink] if done else []):
        return False
    if done and pk[-1][0] != fink:
        return False
    return True


WDATA = [b'ab', b'CD', b'ef', b'GH']


def send_types(t0: bool, t1: bool, t2: bool, t3: bool, n0: int, n1: int, n2: int, n3: int, w: int, pktsize: int, adj: int, fin: bool, nw: int = 4) -> bool:
    """Four writes, each to stdout or stderr (symbolic), 0..2 bytes each, against
    a symbolic send window (so that any number of them queue up), then window
    adjusts until everything is out: the wire carries exactly the written bytes,
    each under the data type it was written with, in the order written, and EOF
    (if requested) after the last of them."""
    chan, conn, loop = mkchan(window=64, pktsize=64, fuel=60)
    chan._send_window = w
    chan._send_pktsize = pktsize
    types = [EXTENDED_DATA_STDERR if t else None for t in (t0, t1, t2, t3)]
    lens = [n0, n1, n2, n3]
    want = []
    for i in range(nw):
        d = WDATA[i][:lens[i]]
        chan.write(d, types[i])
        for b in d:
            want.append((types[i], b))
    if fin:
        chan.write_eof()
    chan._process_window_adjust(93, 0, SSHPacket(UInt32(adj)))
    chan._process_window_adjust(93, 0, SSHPacket(UInt32(16)))
    pk = split_sent(conn.sent)
    got = []
    tail = []
    for kind, dt, data, wf in pk:
        if not wf:
            return False
        if kind != 'data':
            tail.append(kind)
            continue
        if tail or not data:
            return False
        for b in data:
            got.append((dt, b))
    if got != want:
        return False
    return tail == (['eof'] if fin else [])


class _RecCodec:
    def __init__(self, real, log, tag):
        self.real, self.log, self.tag = real, log, tag

    def encode(self, s, final=False):
        with notrace():
            r = self.real.encode(s, final)
        self.log.append((self.tag, s, final, r))
        return r

    def decode(self, b, final=False):
        with notrace():
            r = self.real.decode(bytes(b), final)
        self.log.append((self.tag, bytes(b), final, r))
        return r


TEXT = ['hé', '€', 'x', '\U0001f600y']
ENCS = ['utf-8', 'utf-16', 'utf-32']


WSETS = [(0,), (0, 1), (1, 2, 3), (0, 1, 2, 3), (3,), (2, 0)]


def text_codec(enc: int, wsel: int, cut: int, paused: bool, eof: bool) -> bool:
    """Text channel: every write goes through the channel's one incremental
    encoder, in order, and exactly the encoder's output is what is sent;
    every received chunk goes through the one incremental decoder in order and
    the decoder is flushed (final=True) when EOF is delivered.  With the real
    codecs underneath: what the session receives equals what was written even
    when the byte stream is cut inside a character."""
    encoding = pick(ENCS, enc)
    # sender
    chan, conn, loop = mkchan(window=64, pktsize=64)
    chan.set_encoding(encoding, 'strict')
    log = []
    with notrace():
        real_enc = codecs.getincrementalencoder(encoding)('strict')
    chan._encoder = _RecCodec(real_enc, log, 'enc')
    chan._send_window = 1000
    chan._send_pktsize = 1000
    written = []
    for i in WSETS[wsel]:
        chan.write(TEXT[i])
        written.append(TEXT[i])
    wire = b''.join(p[2] for p in split_sent(conn.sent) if p[0] == 'data')
    if [e[1] for e in log] != written:
        return False                       # encoder bypassed, or called out of order
    if wire != b''.join(e[3] for e in log):
        return False
    # receiver: the same wire bytes cut at an arbitrary position
    sess = RecSession()
    rchan, rconn, rloop = mkchan(cls=CH.SSHClientChannel, window=1000, pktsize=1000, session=sess)
    rchan.set_encoding(encoding, 'strict')
    rlog = []
    with notrace():
        real_dec = codecs.getincrementaldecoder(encoding)('strict')
    rchan._decoder = _RecCodec(real_dec, rlog, 'dec')
    assume(0 <= cut <= len(wire))
    cut = conc(cut, 0, len(wire))
    parts = [wire[:cut], wire[cut:]]
    if paused:
        rchan.pause_reading()
    for p in parts:
        if p:
            rchan._process_data(94, 0, SSHPacket(String(p)))
    if eof:
        rchan._process_eof(96, 0, SSHPacket(b''))
    if paused:
        rchan.resume_reading()
    got = ''.join(e[1] for e in sess.log if e[0] == 'data')
    if got != ''.join(written):
        return False
    fed = [e[1] for e in rlog if not e[2]]
    if b''.join(fed) != wire or [f for f in fed if f] != [p for p in parts if p]:
        return False
    if eof:
        if not rlog or rlog[-1][2] is not True or rlog[-1][1] != b'':
            return False                   # decoder not flushed at EOF
        if [e[0] for e in sess.log if e[0] in ('data', 'eof')][-1] != 'eof':
            return False
    return True


class _RecChan:
    def __init__(self, name, log):
        self.name, self.log = name, log

    def log_received_packet(self, *a, **k):
        pass

    def process_packet(self, pkttype, seq, packet):
        self.log.append((self.name, pkttype, packet.get_remaining_payload()))
        return True


def dispatch(pkttype: int, recipient: int, n_reg: int) -> bool:
    """Connection-level dispatch: a channel message is handed to the channel
    registered under exactly the recipient number in the packet, and to no
    other; an unregistered number is a protocol error."""
    conn = mkconn(True)
    out = instrument(conn)
    conn._recv_encryption = None
    conn._auth_complete = True
    conn._kex_complete = True
    conn._recv_handler = conn._recv_pkthdr

    class E:
        def decrypt_header(self, seq, p, n):
            return p, p[:n]

        def decrypt_packet(self, seq, first, rest, n, mac):
            return first[n:] + rest

    conn._recv_encryption = E()
    log = []
    regs = [0, 1, 5][:n_reg]
    for r in regs:
        conn._channels[r] = _RecChan(r, log)
    rcp = pick([0, 1, 2, 5, 0xffffffff], recipient)
    pkttype = conc(pkttype, 93, 100)
    n_reg = conc(n_reg, 0, 3)
    body = UInt32(rcp) + b'xy'
    deliver(conn, frame(Byte(pkttype) + body))
    if rcp in regs:
        return log == [(rcp, pkttype, b'xy')] and not out.closed and not out.internal
    return log == [] and len(out.closed) == 1 and isinstance(out.closed[0], ProtocolError)


def two_channels(e0: int, e1: int, e2: int, e3: int, e4: int) -> bool:
    """Two channels open on one real connection: five interleaved events from
    {peer DATA to A / to B, peer EOF to A / to B, local write on A / on B}
    through the real receive path and send path - each session sees exactly
    its own bytes in order and its own EOF; each written chunk leaves with its
    own channel's remote number; nothing crosses over."""
    from vf.rt import notrace
    evs = [pick(['dA', 'dB', 'eofA', 'eofB', 'wA', 'wB'], e) for e in (e0, e1, e2, e3, e4)]
    with notrace():
        return _two_channels(evs)


def _two_channels(evs):
    from vf.stubs import MiniLoop, NullLogger
    from props.connlib import pframe
    from props.C10 import _Ident
    loop = MiniLoop()
    conn = mkconn(True, loop=loop)
    out = instrument(conn)
    conn._recv_encryption = _Ident()
    conn._send_encryption = None
    conn._auth_complete = conn._kex_complete = True
    conn._recv_handler = conn._recv_pkthdr
    wire = []
    conn._send = lambda data: wire.append(bytes(data))
    chans = {}
    for name, remote in (('A', 11), ('B', 22)):
        sess = RecSession()
        ch = CH.SSHChannel(conn, loop, None, 'strict', 64, 32)
        ch._logger = NullLogger()
        ch._session = sess
        ch._send_chan = remote
        ch._send_state = ch._recv_state = 'open'
        ch._send_window, ch._send_pktsize = 64, 32
        ch._recv_paused = False
        chans[name] = (ch, sess, remote)
    expect = {'A': [], 'B': []}
    sent = {'A': [], 'B': []}
    eof = {'A': False, 'B': False}
    n = 0
    for ev in evs:
        n += 1
        which = ev[-1]
        ch, sess, remote = chans[which]
        data = bytes([64 + n]) * 3
        if ev[0] == 'd':
            if eof[which]:
                continue
            deliver(conn, pframe(conn, Byte(94) + UInt32(ch._recv_chan) + String(data)))
            expect[which].append(('data', data, None))
        elif ev.startswith('eof'):
            if eof[which]:
                continue
            deliver(conn, pframe(conn, Byte(96) + UInt32(ch._recv_chan)))
            eof[which] = True
            expect[which].append(('eof',))
        else:
            if ch._send_state != 'open':
                continue
            ch.write(data)
            sent[which].append(data)
        loop.run(30)
        if out.closed or out.internal or loop.exceptions:
            return False
    for which in 'AB':
        ch, sess, remote = chans[which]
        seen = [e for e in sess.log if e[0] in ('data', 'eof')]
        if seen != expect[which]:
            return False
    # outgoing CHANNEL_DATA (and the EOF a session without eof handler triggers): recipient numbers and payloads
    outA, outB = [], []
    for w in wire:
        t = w[5]
        rc = int.from_bytes(w[6:10], 'big')
        if t == 94:
            ln = int.from_bytes(w[10:14], 'big')
            (outA if rc == 11 else outB if rc == 22 else out.closed).append(w[14:14 + ln])
        elif rc not in (11, 22):
            return False
    return outA == sent['A'] and outB == sent['B']


OBLIGATIONS = [
    Ob('recv_order', recv_order,
       sym=dict(k0=R(0, 4), k1=R(0, 4), k2=R(0, 4), k3=R(0, 4), sstate=R(0, 2), eofret=B),
       shards=dict(k0=[0, 1, 2, 4]), pre=['k0 != 3'],
       timeout=120, thorough_timeout=300,
       functions=[CH.SSHChannel._process_data, CH.SSHChannel._process_extended_data, CH.SSHChannel._process_eof,
                  CH.SSHChannel._accept_data, CH.SSHChannel._deliver_data, CH.SSHChannel._flush_recv_buf,
                  CH.SSHChannel.pause_reading, CH.SSHChannel.resume_reading],
       bounds='4 events from {data, stderr data, pause, resume, eof}; local send state in {open, eof_pending, eof}; distinct chunk contents'),
    Ob('send_eof_order', send_eof_order,
       sym=dict(n1=R(0, 3), n2=R(0, 4), w=R(0, 4), a1=R(0, 4), a2=R(0, 4), fin=R(1, 2)),
       shards=dict(n1=[0, 3], n2=[0, 2, 4]),
       thorough_shards=dict(n1=[0, 1, 2, 3], n2=[0, 1, 2, 3, 4]),
       timeout=300, thorough_timeout=600,
       functions=[CH.SSHChannel.write, CH.SSHChannel._flush_send_buf, CH.SSHChannel.write_eof, CH.SSHChannel.close,
                  CH.SSHChannel._process_window_adjust, CH.SSHChannel._close_send],
       bounds='2 writes (<=3, <=4 bytes), window 0..4, peer pktsize 2, two adjusts 0..4 after write_eof()/close()'),
    Ob('send_order', send_window,
       sym=dict(window=R(0, 5), pktsize=R(1, 4), adj=R(0, 4), stderr2=B),
       shards=dict(n1=[3], n2=[2], fin=[0, 1, 2]),
       thorough_shards=dict(n1=[1, 3, 5], n2=[2, 5], fin=[0, 1, 2]),
       timeout=120, thorough_timeout=400,
       functions=[CH.SSHChannel.write, CH.SSHChannel._flush_send_buf],
       bounds='same harness as C08.send_window (two writes, stdout/stderr, one adjust)'),
    Ob('send_types', send_types,
       sym=dict(t0=B, t1=B, t2=B, n0=R(1, 2), n1=R(1, 2), n2=R(1, 2), w=R(0, 3), adj=R(0, 2), fin=B),
       shards=dict(t0=[False, True], t1=[False, True], t2=[False, True], w=[0, 1, 3]),
       fixed=dict(t3=False, n3=0, nw=3, pktsize=2),
       thorough_sym=dict(t3=B, n3=R(1, 2), nw=R(4, 4)),
       thorough_shards=dict(t0=[False, True], t1=[False, True], t2=[False, True], w=[0, 1, 2, 4]),
       timeout=200, thorough_timeout=900,
       functions=[CH.SSHChannel.write, CH.SSHChannel._flush_send_buf, CH.SSHChannel._process_window_adjust, CH.SSHChannel.write_eof],
       bounds='3 writes x {stdout, stderr} x 1..2 bytes, initial window in {0,1,3}, peer packet size 2, adjust 0..2 then 16, with/without write_eof (thorough: a 4th write of 1..2 bytes to either stream, window {0,1,2,4})'),
    Ob('text_codec', text_codec,
       sym=dict(cut=R(0, 40), paused=B, eof=B),
       shards=dict(enc=[0, 1, 2], wsel=[0, 1, 2, 3, 4, 5]),
       timeout=120, thorough_timeout=300,
       functions=[CH.SSHChannel.write, CH.SSHChannel.set_encoding, CH.SSHChannel._deliver_data,
                  CH.SSHChannel._flush_recv_buf, CH.SSHChannel._process_eof],
       bounds='6 write sequences of fixed non-ASCII strings (sharded), encodings utf-8/utf-16/utf-32, wire cut at any byte position, paused or not, EOF or not'),
    Ob('two_channels', two_channels, sym=dict(e0=R(0, 5), e1=R(0, 5), e2=R(0, 5), e3=R(0, 5), e4=R(0, 5)),
       shards=dict(e0=[0, 1, 2, 3, 4, 5]), timeout=250,
       functions=[C.SSHConnection._recv_packet, CH.SSHChannel._process_data, CH.SSHChannel._process_eof, CH.SSHChannel.write,
                  CH.SSHChannel.send_packet],
       bounds='2 channels on one real connection, 5 interleaved events from {DATA to A/B, EOF to A/B, write on A/B}'),
    Ob('dispatch', dispatch,
       sym=dict(pkttype=R(93, 100), recipient=R(0, 4)),
       shards=dict(n_reg=[0, 1, 2, 3]),
       timeout=120,
       functions=[C.SSHConnection._recv_packet, C.SSHConnection._recv_pkthdr, C.SSHConnection._recv_data],
       bounds='channel message types 93..100 (MSG_CHANNEL_FIRST..), recipient in {0,1,2,5,2^32-1}, 0..3 registered channels {0,1,5}'),
]

MANIFEST = dict(
    engines='A',
    technique='bounded symbolic execution (CrossHair/z3) of the real channel send/receive/EOF code and connection dispatch',
    text='Bounded symbolic verification of the real SSHChannel data path: receive side over all sequences of 4 events from {data, stderr data, pause, '
         'resume, EOF} in three local send states (session sees exactly the accepted chunks, in order, once, EOF last and iff sent); send side over '
         'two writes, symbolic window/packet size/adjusts and EOF/close (bytes in order, once, EOF/CLOSE only after the last byte); text channels: '
         'every write passes through the one incremental encoder and every chunk through the one incremental decoder, flushed at EOF, with the wire cut '
         'at any byte position; per-packet dispatch by recipient channel number.',
    note='Small-scope bounds (<= 4 events, <= 7 bytes, windows <= 6) stated per obligation in the evidence; codecs (C code) are trusted and only their '
         'call discipline is checked; more than 2-3 concurrent channels and TCP segmentation are reduced to the dispatch lemma here and to C02. '
         'Trusted: CrossHair, z3, harness oracles, recording stubs for connection/session.')
