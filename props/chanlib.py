"""Shared harness pieces for channel properties (C07, C08, C09, C10)"""

from asyncssh import channel as CH
from asyncssh.constants import (MSG_CHANNEL_DATA, MSG_CHANNEL_EXTENDED_DATA,
                                MSG_CHANNEL_EOF, MSG_CHANNEL_CLOSE,
                                MSG_CHANNEL_WINDOW_ADJUST, EXTENDED_DATA_STDERR)
from asyncssh.packet import SSHPacket, UInt32, String

from vf.rt import Fuel
from vf.stubs import MiniLoop, NullLogger, chan_conn


class RecSession:
    """SSHSession model recording every callback"""

    def __init__(self, eof_ret=False):
        self.log = []
        self.eof_ret = eof_ret
        self.chan = None

    def connection_made(self, chan):
        self.chan = chan
        self.log.append(('made',))

    def connection_lost(self, exc):
        self.log.append(('lost', type(exc).__name__ if exc else None))

    def session_started(self):
        self.log.append(('started',))

    def data_received(self, data, datatype):
        self.log.append(('data', data if isinstance(data, str) else bytes(data), datatype))

    def eof_received(self):
        self.log.append(('eof',))
        return self.eof_ret

    def pause_writing(self):
        self.log.append(('pause_w',))

    def resume_writing(self):
        self.log.append(('resume_w',))

    def exit_status_received(self, status):
        self.log.append(('exit_status', status))

    def exit_signal_received(self, *a):
        self.log.append(('exit_signal',) + a)

    def xon_xoff_requested(self, v):
        self.log.append(('xonxoff', v))

    def __getattr__(self, name):
        if name.startswith('__'):
            raise AttributeError(name)
        return lambda *a, **k: self.log.append((name,) + a)


def mkchan(cls=None, window=8, pktsize=4, fuel=64, loop=None, session=None):
    """Real channel built by the real __init__ on a recording connection,
    put directly into the open state (what process_open_confirmation does)"""
    loop = loop or MiniLoop()
    conn = chan_conn(loop)
    sent = conn.sent
    orig = conn.send_packet

    def send_packet(pkttype, *args, handler=None):
        if len(sent) >= fuel:
            raise Fuel()
        orig(pkttype, *args, handler=handler)

    conn.send_packet = send_packet
    conn.detach_x11_listener = lambda chan: None
    cls = cls or CH.SSHServerChannel
    if cls is CH.SSHServerChannel:
        chan = cls(conn, loop, True, False, True, 10, 1024, None, 'strict', window, pktsize)
    elif cls is CH.SSHClientChannel:
        chan = cls(conn, loop, 'strict', None, 'strict', window, pktsize)
    else:
        chan = cls(conn, loop, None, 'strict', window, pktsize)
    chan._logger = NullLogger()
    chan._session = session or RecSession()
    chan._send_chan = 7
    chan._send_state = 'open'
    chan._recv_state = 'open'
    chan._recv_paused = False
    return chan, conn, loop


def data_pkt(data: bytes) -> SSHPacket:
    return SSHPacket(String(data))


def split_sent(sent):
    """decode (pkttype, payload) list written by the channel: returns list of
    (kind, datatype, data) with kind in data/eof/close/adjust/other"""
    out = []
    for t, p in sent:
        if t == MSG_CHANNEL_DATA:
            n = int.from_bytes(p[4:8], 'big')
            out.append(('data', None, p[8:8 + n], len(p) == 8 + n))
        elif t == MSG_CHANNEL_EXTENDED_DATA:
            dt = int.from_bytes(p[4:8], 'big')
            n = int.from_bytes(p[8:12], 'big')
            out.append(('data', dt, p[12:12 + n], len(p) == 12 + n))
        elif t == MSG_CHANNEL_EOF:
            out.append(('eof', None, b'', len(p) == 4))
        elif t == MSG_CHANNEL_CLOSE:
            out.append(('close', None, b'', len(p) == 4))
        elif t == MSG_CHANNEL_WINDOW_ADJUST:
            out.append(('adjust', int.from_bytes(p[4:8], 'big'), b'', len(p) == 8))
        else:
            out.append(('other', t, p, True))
    return out
