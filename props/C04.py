"""C04 - Client only talks to a server whose host key it trusts"""

from asyncssh import connection as C
from asyncssh import public_key as PK
from asyncssh.misc import HostKeyNotVerifiable

from vf.core import Ob, R, B
from vf.rt import assume, pick, conc, cb
from vf.stubs import mkconn
from props.C03 import client_verify
from props.C17 import known_hosts as kh_lookup

ASSUMPTIONS = [
    'keys are model objects compared by identity of their public data; decode_ssh_public_key / decode_ssh_certificate are stubs that return the '
    'model key / a real SSHOpenSSHCertificate instance with symbolic type, validity window and principals (its real validate() runs); the CA '
    'signature on the certificate is checked at decode time in the real code - that is C16',
    'the clock is an explicit symbolic integer; X.509 chains are not examined (PyCA/pyOpenSSL)',
    'how known_hosts text selects the trusted / CA / revoked sets is C17; here the sets are symbolic',
    '"before any credentials are sent" rests on C03.client_verify (no NEWKEYS without an accepted key) and the C06/C11 gates (no USERAUTH before NEWKEYS)',
]


class K:
    def __init__(self, name):
        self.name = name
        self.algorithm = b'alg'
        self.sig_algorithms = (b'alg',)

    def __eq__(self, other):
        return isinstance(other, K) and other.name == self.name

    def __hash__(self):
        return hash(self.name)


class Owner:
    def __init__(self, key_ok, ca_ok):
        self.key_ok, self.ca_ok = key_ok, ca_ok

    def validate_host_public_key(self, host, addr, port, key):
        return self.key_ok

    def validate_host_ca_key(self, host, addr, port, key):
        return self.ca_ok


class Clock:
    def __init__(self, now):
        self.now = now

    def time(self):
        return self.now


PRINC = [[], ['server.example'], ['other.example'], ['other.example', 'server.example']]


def host_key(kind: int, nokh: bool, listed: bool, revoked: bool, owner_key: bool, ca_listed: bool, ca_revoked: bool,
             owner_ca: bool, ctype: int, after: int, before: int, now: int, pr: int, alias: bool) -> bool:
    """validate_server_host_key returns a key iff the trust configuration
    accepts what the server presented: a plain key that is listed (or accepted
    by the application) and not revoked, or a certificate whose CA is trusted
    (or accepted) and not revoked, of type host, with valid_after <= now <
    valid_before and covering the host (or listing no principals); anything
    else is HostKeyNotVerifiable.  known_hosts=None is the documented opt-out."""
    conn = mkconn(False)
    conn._host = 'server.example'
    conn._port = 22
    conn._peer_addr = '10.0.0.1'
    conn._host_key_alias = 'alias.example' if alias else None
    conn._owner = Owner(owner_key, owner_ca)
    thekey, cakey = K('server-key'), K('ca-key')
    if nokh:
        conn._trusted_host_keys = None
        conn._trusted_ca_keys = None
    else:
        conn._trusted_host_keys = {K('unrelated')} | ({thekey} if listed else set())
        conn._trusted_ca_keys = {cakey} if ca_listed else set()
    conn._revoked_host_keys = ({thekey} if revoked else set()) | ({cakey} if ca_revoked else set())
    kind = pick(['key', 'cert', 'junk'], kind)
    cert = PK.SSHOpenSSHCertificate.__new__(PK.SSHOpenSSHCertificate)
    cert._cert_type = ctype
    cert._valid_after = after
    cert._valid_before = before
    cert.principals = list(pick(PRINC, pr))
    cert.signing_key = cakey
    cert.key = thekey
    cert.is_x509_chain = False
    saved = (C.decode_ssh_certificate, C.decode_ssh_public_key, PK.time)

    def dec_cert(data, *a):
        if kind == 'cert':
            return cert
        raise C.KeyImportError('no')

    def dec_key(data):
        if kind == 'key':
            return thekey
        raise C.KeyImportError('no')

    C.decode_ssh_certificate, C.decode_ssh_public_key, PK.time = dec_cert, dec_key, Clock(now)
    try:
        try:
            got = conn.validate_server_host_key(b'blob')
            accepted = True
        except HostKeyNotVerifiable:
            accepted = False
    finally:
        C.decode_ssh_certificate, C.decode_ssh_public_key, PK.time = saved
    name = 'alias.example' if alias else 'server.example'
    princ = pick(PRINC, pr)
    if kind == 'junk':
        want = False
    elif kind == 'key':
        want = nokh or ((not revoked) and (listed or owner_key))
    else:
        want = nokh or ((not ca_revoked) and (ca_listed or owner_ca) and ctype == PK.CERT_TYPE_HOST and
                        after <= now < before and (not princ or name in princ))
    if accepted != want:
        return False
    if accepted:
        return got == thekey and conn._server_host_key == thekey
    return conn._server_host_key is None


def cert_validate(ctype: int, want_type: int, after: int, before: int, now: int, pr: int, who: int) -> bool:
    """SSHOpenSSHCertificate.validate: type, validity window and principal rule"""
    cert = PK.SSHOpenSSHCertificate.__new__(PK.SSHOpenSSHCertificate)
    cert._cert_type = ctype
    cert._valid_after = after
    cert._valid_before = before
    princ = pick(PRINC, pr)
    cert.principals = list(princ)
    wanted = pick(['server.example', 'nobody', None, ''], who)
    saved = PK.time
    PK.time = Clock(now)
    try:
        try:
            cert.validate(want_type, wanted)
            ok = True
        except ValueError:
            ok = False
    finally:
        PK.time = saved
    ref = (want_type == PK.CERT_TYPE_ANY or want_type == ctype) and after <= now < before and \
        (wanted is None or not princ or wanted in princ)
    return ok == ref


def match_sets(nk: int, nca: int, nrev: int) -> bool:
    """_match_known_hosts: the sets used for the decision are exactly the
    lists the known_hosts lookup returned"""
    conn = mkconn(False)
    keys = [K('k0'), K('k1')]
    hk = keys[:conc(nk, 0, 2)]
    ca = keys[:conc(nca, 0, 2)]
    rv = keys[:conc(nrev, 0, 2)]
    saved = C.match_known_hosts
    C.match_known_hosts = lambda kh, host, addr, port: (hk, ca, rv, [], [], [], [])
    try:
        conn._match_known_hosts('x', 'h', 'a', None)
    finally:
        C.match_known_hosts = saved
    return conn._trusted_host_keys == set(hk) and conn._trusted_ca_keys == set(ca) and conn._revoked_host_keys == set(rv)


OBLIGATIONS = [
    Ob('host_key', host_key,
       sym=dict(kind=R(0, 2), nokh=B, listed=B, revoked=B, owner_key=B, ca_listed=B, ca_revoked=B, owner_ca=B,
                ctype=R(1, 2), after=R(0, 4), before=R(0, 5), now=R(0, 5), pr=R(0, 3), alias=B),
       shards=dict(kind=[0, 1, 2], alias=[False, True]),
       timeout=250, thorough_timeout=600,
       functions=[C.SSHClientConnection.validate_server_host_key, C.SSHConnection._validate_host_key,
                  C.SSHConnection._validate_openssh_host_certificate, PK.SSHOpenSSHCertificate.validate],
       bounds='presented blob = plain key / OpenSSH certificate / undecodable; every combination of listed, revoked, application verdicts, CA listed / '
              'revoked, certificate type user/host, valid_after/before/now in 0..5, 4 principal lists, host key alias or not, known_hosts disabled or not'),
    Ob('cert_validate', cert_validate,
       sym=dict(ctype=R(1, 2), want_type=R(0, 2), after=R(0, 4), before=R(0, 5), now=R(0, 5), pr=R(0, 3), who=R(0, 3)), timeout=200,
       functions=[PK.SSHOpenSSHCertificate.validate],
       bounds='certificate type x wanted type (any/user/host) x window/now in 0..5 x 4 principal lists x wanted principal {listed name, other, None, empty string}'),
    Ob('match_sets', match_sets, sym=dict(nk=R(0, 2), nca=R(0, 2), nrev=R(0, 2)), timeout=90,
       functions=[C.SSHConnection._match_known_hosts], bounds='0..2 keys in each of the three result lists'),
    Ob('known_hosts_lookup', kh_lookup,
       sym=dict(m0=R(0, 2), f0=R(0, 15), k0=R(0, 2), m1=R(0, 2), f1=R(0, 15), k1=R(0, 2), hi=R(0, 3), ai=R(0, 2), port=B, prior=R(0, 2)),
       shards=dict(f0=[0, 6, 7, 11, 14], k0=[0], k1=[1], m1=[0], m0=[0, 1], ai=[0, 1]),
       thorough_shards=dict(f0=list(range(16)), k0=[0], k1=[1], m0=[0, 1, 2]),
       timeout=200, thorough_timeout=600,
       functions=['asyncssh.known_hosts.SSHKnownHosts.match / _match (same harness as C17.known_hosts)'],
       bounds='2-line known_hosts files: first line exact / [host]:port / [*]:port / hashed-with-port / negated-later-element form, plain or @cert-authority; second line any of 16 forms; host/address/port queries - the trusted / CA / revoked sets equal the reference lookup incl. the port fallback rule'),
    Ob('no_newkeys_without_trust', client_verify, sym=dict(f=R(0, 6), sigflaw=R(0, 4), keyok=B, trailing=B), timeout=150,
       functions=['asyncssh.kex_dh._KexDHBase._process_reply (same harness as C03.client_verify)'],
       bounds='see C03.client_verify: NEWKEYS only after validate_server_host_key returned and the signature verified'),
]

MANIFEST = dict(
    engines='A',
    technique='bounded symbolic execution (CrossHair/z3) of the real host-key / host-certificate acceptance code against a reference predicate over symbolic trust sets, certificate fields and clock',
    text='Bounded symbolic verification of the client trust decision: the real validate_server_host_key/_validate_host_key/'
         '_validate_openssh_host_certificate/SSHOpenSSHCertificate.validate accept exactly when the reference predicate from the property statement '
         'holds - over all combinations of membership in the trusted / CA / revoked sets, application callbacks, certificate type, validity window '
         'vs a symbolic clock, principal lists and host alias - and otherwise raise HostKeyNotVerifiable without recording a host key; the key exchange '
         'sends NEWKEYS only after that acceptance and a verified signature.',
    note='known_hosts text -> sets is C17; CA signature over the certificate body is C16; X.509 chains are out of reach (C libraries). '
         'Small integer clock/window values (0..5) stand for the ordering cases. Trusted: CrossHair, z3, model keys and reference predicate in props/C04.py.')
