"""C18 - Config files resolve like OpenSSH, and never expand unsafe input"""

import io
from pathlib import Path

from asyncssh import config as CF
from asyncssh.misc import IllegalUserName

from vf.core import Ob, R, B
from vf.rt import assume, pick, conc, enc_str, notrace, cb

ASSUMPTIONS = [
    'config text is generated from a small grammar (Host / Match blocks with matching or non-matching conditions, two scalar options, one list '
    'option) and fed to the real SSHConfig.parse through a patched open(); shlex quoting, Include globbing on a real filesystem, Match exec, DNS '
    'canonicalisation and agreement with `ssh -G` are outside',
    'the unsafe-user filter is decided as a language question over unbounded strings (regex -> z3) plus the real _set_tokens on all names of '
    'length <= 4 over {a / \\ . ~ $ { } :}',
]

UALPHA = 'a/\\.~${}:'


def safe_user(s: str) -> bool:
    """reference: may this remote user name be substituted for %u in a path?"""
    if s == '..' or s.startswith('~'):
        return False
    if '/' in s or '\\' in s:
        return False
    if len(s) >= 2 and s[0].isascii() and s[0].isalpha() and s[1] == ':':
        return False
    i = s.find('${')
    if i >= 0 and '}' in s[i + 2:]:
        return False
    return True


def unsafe_concrete(s: str) -> bool:
    return bool(CF._unsafe_user_pattern.search(s)) == (not safe_user(s))


def unsafe_user_lang(job):
    import z3
    from vf import engine_c as E
    q = E.Q(60000)
    s = z3.String('s')
    impl = E.search_lang(CF._unsafe_user_pattern)
    A = E.ANY
    letter = z3.Union(z3.Range('a', 'z'), z3.Range('A', 'Z'))
    # the reference "unsafe" language written independently of the pattern
    # (a name containing a newline is never a legal user name: excluded below)
    ref = z3.Union(
        z3.Re('..'),
        z3.Concat(z3.Re('~'), z3.Star(A)),
        z3.Concat(letter, z3.Re(':'), z3.Star(A)),
        z3.Concat(z3.Star(A), z3.Union(z3.Re('/'), z3.Re('\\')), z3.Star(A)),
        z3.Concat(z3.Star(A), z3.Re('${'), z3.Star(A), z3.Re('}'), z3.Star(A)))
    nonl = z3.Star(E.NOT_NL)
    # symmetric difference of the two languages, restricted to names without a newline, must be empty
    diff = z3.Intersect(nonl, z3.Union(z3.Intersect(impl, z3.Complement(ref)), z3.Intersect(ref, z3.Complement(impl))))
    r, m = q.check(z3.InRe(s, diff))
    # vacuity witnesses: both languages are non-empty and not everything
    if q.check(z3.InRe(s, impl))[0] != 'sat' or q.check(z3.InRe(s, z3.Intersect(nonl, z3.Complement(impl))))[0] != 'sat':
        return {'status': 'inconclusive', 'reason': 'vacuity witness failed'}
    # cross-check of the translator: sample strings judged by the real re
    for w in ['', '..', '...', '~x', 'a:', 'ab:', 'x/y', 'x\\y', '${a}', 'a${b}c', '${', 'a$b', '$a{}', 'x}${', 'C:', '1:']:
        inz = q.check(z3.InRe(z3.StringVal(w), impl))[0] == 'sat'
        if inz != bool(CF._unsafe_user_pattern.search(w)):
            return {'status': 'inconclusive', 'reason': 'translator disagrees with re on %r' % w}
    base = {'queries': q.n, 'solver_s': q.t, 'evaluations': q.n, 'nontrivial': q.n,
            'sample': {'pattern': CF._unsafe_user_pattern.pattern}, 'extra': {'string_length': 'unbounded'}}
    if r == 'unsat':
        return dict(base, status='confirmed')
    if r == 'sat':
        return dict(base, status='cex', kwargs={'s': E.unescape(E.model_str(m, s))}, reason='filter language differs from the reference')
    return dict(base, status='inconclusive', reason='solver ' + r)


def set_tokens(n: int, i0: int, i1: int, i2: int, i3: int) -> bool:
    """SSHServerConfig._set_tokens: %u is defined iff the user name is safe;
    otherwise IllegalUserName - for every name of length <= 4 over the
    metacharacter alphabet."""
    user = enc_str(UALPHA, n, [i0, i1, i2, i3])
    cfg = CF.SSHServerConfig.__new__(CF.SSHServerConfig)
    cfg._tokens = {'%': '%'}
    cfg._user = user
    try:
        cfg._set_tokens()
    except IllegalUserName:
        return not safe_user(user)
    return safe_user(user) and cfg._tokens.get('u') == user


class _Sock:
    """socket module stand-in for asyncssh.config: the local host name is an environment input"""
    def __getattr__(self, name):
        import socket
        if name == 'gethostname':
            return lambda: 'localhost.example'
        return getattr(socket, name)


class _env:
    def __enter__(self):
        self.saved = CF.socket
        CF.socket = _Sock()

    def __exit__(self, *a):
        CF.socket = self.saved


def _client(host='h', user='u', canonical=False, final=False):
    return CF.SSHClientConfig(None, False, canonical, final, 'local', user, host, ())


HOSTPATS = ['h', 'g', '*', '!h', '!h *', 'h*', '!g *']
MATCHHOST = {'h': True, 'g': False, '*': True, '!h': False, '!h *': False, 'h*': True, '!g *': True}


def _parse(cfg, texts):
    saved = getattr(CF, 'open', None)
    files = dict(texts)

    def fake_open(path, *a, **k):
        return io.StringIO(files[str(path)])

    CF.open = fake_open
    try:
        with _env(), notrace():       # all inputs are concrete here (chosen by pick()): run the parser natively
            for name, _ in texts:
                cfg.parse(Path(name))
    finally:
        if saved is None:
            del CF.open
        else:
            CF.open = saved


def blocks(p0: int, p1: int, p2: int, s0: int, s1: int, s2: int, glob: int, eq: int) -> bool:
    """Three Host blocks (+ optional global lines): each option takes the value
    from the first line, in file order, whose block condition holds; list
    options accumulate over all matching blocks; `Opt=val` spellings parse."""
    pats = [pick(HOSTPATS, p0), pick(HOSTPATS, p1), pick(HOSTPATS, p2)]
    sets = [conc(s0, 0, 2), conc(s1, 0, 2), conc(s2, 0, 2)]
    glob = conc(glob, 0, 1)
    lines = []
    sep = pick([' ', '=', ' = ', '= '], eq)
    expect_port = None
    expect_user = None
    send_env = []
    if glob == 1:
        lines.append('Port%s1' % sep)
        expect_port = 1
    for i in range(3):
        lines.append('Host ' + pats[i])
        hit = MATCHHOST[pats[i]]
        if sets[i] in (0, 2):
            lines.append('  Port%s%d' % (sep, 10 + i))
            if hit and expect_port is None:
                expect_port = 10 + i
        if sets[i] in (1, 2):
            lines.append('  User%sname%d' % (sep, i))
            if hit and expect_user is None:
                expect_user = 'name%d' % i
        lines.append('  SendEnv V%d' % i)
        if hit:
            send_env.append('V%d' % i)
    cfg = CF.SSHClientConfig(None, False, False, False, 'local', (), 'h', ())
    _parse(cfg, [('f1', '\n'.join(lines) + '\n')])
    return cfg.get('Port') == expect_port and cfg.get('User') == expect_user and (cfg.get('SendEnv') or []) == send_env


def two_files(p_last: int, second_cond: int, inc: bool) -> bool:
    """Several files read into one config (a config list, or an Include of
    two files): the second file starts in the active state of the place it is
    read from - a non-matching block left open at the end of the first file
    does not swallow the second file's leading lines."""
    inc = cb(inc)
    second_cond = conc(second_cond, 0, 2)
    pat = pick(HOSTPATS, p_last)
    f1 = 'Host %s\n  User fromfirst\n' % pat
    pre = ['', 'Host h\n', 'Host g\n'][second_cond]
    f2 = pre + 'Port 77\n'
    cfg = CF.SSHClientConfig(None, False, False, False, 'local', (), 'h', ())
    if inc:
        # model of `Include f1 f2` at top level: _include() parses each path then restores state
        saved_glob = Path.glob
        saved_isfile = Path.is_file

        def fake_glob(self, pattern):
            return [Path(pattern)]

        Path.glob = fake_glob
        Path.is_file = lambda self: True
        try:
            saved = getattr(CF, 'open', None)
            files = {'f1': f1, 'f2': f2, 'main': 'Include /f1 /f2\nCompression yes\n'}

            def fake_open(path, *a, **k):
                return io.StringIO(files[str(path).lstrip('/')])

            CF.open = fake_open
            try:
                with _env(), notrace():
                    cfg.parse(Path('main'))
            finally:
                if saved is None:
                    del CF.open
                else:
                    CF.open = saved
        finally:
            Path.glob = saved_glob
            Path.is_file = saved_isfile
        if cfg.get('Compression') is not True:
            return False
    else:
        _parse(cfg, [('f1', f1), ('f2', f2)])
    want_port = 77 if second_cond in (0, 1) else None
    want_user = 'fromfirst' if MATCHHOST[pat] else None
    return cfg.get('Port') == want_port and cfg.get('User') == want_user


def match_logic(c0: int, n0: bool, c1: int, n1: bool, canonical: bool, final: int, host: int, user: int, tail: int) -> bool:
    """Match block: the conjunction of its criteria with negation (all,
    canonical, final, host, user, originalhost, localuser).  Every criterion on
    the line is evaluated as ssh_config(5) does: a "final" criterion requests
    the final pass even when an earlier criterion already failed, and a
    malformed criterion is an error wherever it stands."""
    n0, n1, canonical = cb(n0), cb(n1), cb(canonical)
    final = pick([None, False, True], final)          # None: first pass (final pass not yet requested)
    h = pick(['h', 'g'], host)
    u = pick(['u', 'v'], user)
    crit = ['all', 'canonical', 'final', 'host h', 'user u', 'originalhost h', 'localuser local', 'host *,!h']
    val = [True, canonical, bool(final), h == 'h', u == 'u', h == 'h', True, h != 'h']
    a, b = pick(crit, c0), pick(crit, c1)
    va, vb = pick(val, c0), pick(val, c1)
    extra = pick(['', ' bogus x', ' user'], tail)
    text = 'Match %s%s %s%s%s\n  Port 5\n' % ('!' if n0 else '', a, '!' if n1 else '', b, extra)
    cfg = CF.SSHClientConfig(None, False, canonical, final, 'local', u, h, ())
    try:
        _parse(cfg, [('f', text)])
    except CF.ConfigParseError:
        return extra != ''
    if extra:
        return False                       # a malformed criterion was silently accepted
    want = (va != n0) and (vb != n1)
    if (cfg.get('Port') == 5) != want:
        return False
    if not final:                           # (the constructor treats False like None: final pass not requested yet)
        return cfg.has_match_final() == ('final' in (a, b))
    return cfg.has_match_final()


ENVVALS = ['plain', '100%h', '50%', 'a%%b', '%u', 'x${HOME}y']
TOKENTEXT = ['${VF_ENV}/id', '${VF_ENV}/%h', '%h-${VF_ENV}', '%%${VF_ENV}', '${VF_ENV}${VF_ENV}', 'lit']


def expand_order(ei: int, ti: int) -> bool:
    """Percent-token and ${ENV} expansion of a client option (IdentityFile):
    the text an environment variable contributes is inserted verbatim - it is
    not scanned again for %tokens (and a value containing a stray % is not an
    error) - exactly as a single left-to-right pass over the configured text
    gives."""
    import os as _os
    envval = pick(ENVVALS, ei)
    text = pick(TOKENTEXT, ti)
    cfg = _client(host='target', user='u')
    saved = _os.environ.get('VF_ENV')
    _os.environ['VF_ENV'] = envval
    try:
        try:
            _parse(cfg, [('f', 'IdentityFile %s\n' % text)])
        except CF.ConfigParseError:
            return False
    finally:
        if saved is None:
            del _os.environ['VF_ENV']
        else:
            _os.environ['VF_ENV'] = saved
    # reference: one pass over the configured text
    out, i = '', 0
    while i < len(text):
        if text.startswith('${VF_ENV}', i):
            out += envval
            i += len('${VF_ENV}')
        elif text[i] == '%':
            out += {'h': 'target', '%': '%', 'u': 'local'}.get(text[i + 1], '?')
            i += 2
        else:
            out += text[i]
            i += 1
    got = cfg.get('IdentityFile')
    return got == [out]


def setters(kind: int, first: int, second: int) -> bool:
    """first obtained value wins for scalar options; list options accumulate;
    'none' semantics"""
    vals = ['yes', 'no', '7', 'none', 'abc']
    a, b = pick(vals, first), pick(vals, second)
    opts = [('Compression', 'bool'), ('Port', 'int'), ('User', 'str'), ('SendEnv', 'list')]
    name, typ = pick(opts, kind)
    text = '%s %s\n%s %s\n' % (name, a, name, b)
    cfg = CF.SSHClientConfig(None, False, False, False, 'local', (), 'h', ())
    try:
        _parse(cfg, [('f', text)])
    except CF.ConfigParseError:
        if typ == 'bool':
            return a not in ('yes', 'no') or b not in ('yes', 'no')
        if typ == 'int':
            return a != '7' or b != '7'
        return False
    got = cfg.get(name)
    if typ == 'bool':
        return got == (a == 'yes')
    if typ == 'int':
        return got == 7
    if typ == 'str':
        return got == (None if a == 'none' else a)
    return got == [a, b]


OBLIGATIONS = [
    Ob('unsafe_user_lang', unsafe_concrete, engine='C', solver=unsafe_user_lang, timeout=300,
       functions=['asyncssh.config._unsafe_user_pattern (compiled regex read from the imported module)'],
       bounds='user names of any length (no newline): filter matches iff the name is "..", starts with ~ or a drive prefix, contains / or \\, or contains ${...}'),
    Ob('set_tokens', set_tokens, sym=dict(n=R(0, 4), i0=R(0, 8), i1=R(0, 8), i2=R(0, 8), i3=R(0, 8)),
       shards=dict(n=[0, 1, 2, 3]), thorough_shards=dict(n=[0, 1, 2, 3, 4]), timeout=200, thorough_timeout=900,
       functions=[CF.SSHServerConfig._set_tokens],
       bounds='all user names of length <= 3 (thorough 4) over {a / \\ . ~ $ { } :}'),
    Ob('blocks', blocks,
       sym=dict(p0=R(0, 6), p1=R(0, 6), p2=R(0, 6), s0=R(0, 2), s1=R(0, 2), s2=R(0, 2), glob=R(0, 1), eq=R(0, 3)),
       shards=dict(p0=[0, 4], eq=[0, 1, 2, 3], s2=[2]), thorough_shards=dict(p0=list(range(7)), eq=[0, 1, 2, 3], glob=[0, 1]),
       timeout=250, thorough_timeout=900,
       functions=[CF.SSHConfig.parse, CF.SSHClientConfig._match_host, CF.SSHConfig._set_int, CF.SSHConfig._set_string,
                  CF.SSHConfig._append_string_list],
       bounds='3 Host blocks with patterns from 7 forms (incl. negation), each setting Port / User / both, + SendEnv list, optional global line, 4 spellings of "="'),
    Ob('two_files', two_files, sym=dict(p_last=R(0, 6), second_cond=R(0, 2), inc=B), timeout=150,
       functions=[CF.SSHConfig.parse, CF.SSHConfig._include, CF.SSHConfig.load],
       bounds='two files read in sequence (config list or Include of two paths), first ending in a matching/non-matching Host block'),
    Ob('match_logic', match_logic,
       sym=dict(c0=R(0, 7), n0=B, c1=R(0, 7), n1=B, canonical=B, final=R(0, 2), host=R(0, 1), user=R(0, 1), tail=R(0, 2)),
       shards=dict(c0=list(range(8))), timeout=200,
       functions=[CF.SSHConfig._match, CF.SSHClientConfig._match_val],
       bounds='Match with two criteria from 8 forms, each negated or not, canonical flag, final pass {not yet requested, no, yes}, 2 hosts x 2 users, optionally followed by an unknown criterion or one without its pattern'),
    Ob('expand_order', expand_order, sym=dict(ei=R(0, 5), ti=R(0, 5)), timeout=150,
       functions=[CF.SSHConfig._expand_val, CF.SSHConfig._expand_token, CF.SSHConfig._expand_env],
       bounds='IdentityFile with 6 texts mixing %h / %% / ${VF_ENV} x 6 environment values (plain, containing %h, a stray %, %%, %u, ${HOME})'),
    Ob('setters', setters, sym=dict(kind=R(0, 3), first=R(0, 4), second=R(0, 4)), timeout=150,
       functions=[CF.SSHConfig._set_bool, CF.SSHConfig._set_int, CF.SSHConfig._set_string, CF.SSHConfig._append_string_list],
       bounds='4 option kinds x two successive values from {yes,no,7,none,abc}'),
]

MANIFEST = dict(
    engines='AC',
    technique='re->z3 language equivalence over unbounded strings for the unsafe-user filter + bounded symbolic execution (CrossHair/z3) of the real config parser on generated config texts',
    text='Unsafe user filter: the language of the real compiled pattern is proved equal, for user names of any length, to the independently written '
         'set {"..", ~*, drive prefix, any / or \\, any ${...}}, and the real _set_tokens defines %u exactly for the complement on all names <= 3-4 '
         'characters. Config resolution: the real parse() on generated texts - three Host blocks with matching / non-matching / negated patterns, four '
         'spellings of "=", optional global lines: first obtained value wins, list options accumulate; two files read in sequence or Included start '
         'in the right state; Match criteria combine as a conjunction with negation; setters keep the first value and validate; every criterion of a Match line is evaluated (final requested, malformed criteria rejected) and ${ENV} text is inserted verbatim, never re-scanned for %tokens.',
    note='shlex quoting, real-filesystem Include globbing (Path.glob is stubbed), Match exec/localnetwork, canonicalisation and agreement with `ssh -G` '
         'are outside. Trusted: z3 regex theory and vf/engine_c.py (cross-checked against re on sample strings), CrossHair, the reference in props/C18.py.')
