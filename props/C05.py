"""C05 - Access is granted exactly when a credential check succeeded"""

from asyncssh import auth as AU
from asyncssh import connection as C
from asyncssh.misc import DisconnectError, ProtocolError
from asyncssh.packet import SSHPacket, UInt32, String, Byte, Boolean

from vf.core import Ob, R, B
from vf.rt import assume, pick, conc
from vf.stubs import mkconn, MiniLoop, AsyncioShim, NullLogger
from props.connlib import frame, instrument, deliver
from props.C10 import _Ident

ASSUMPTIONS = [
    'the application (SSHServer owner) is a stub whose validators return symbolic verdicts and complete either at once or when the harness resolves '
    'a back-end future; the event loop is the FIFO MiniLoop; what is symbolic is the order and spacing of: arrival of the second request, '
    'completion of each validator',
    'signatures are a free model: verify(data, sig) is true iff sig == b"SIG" + key id + data (unforgeable, injective); key decoding and '
    'authorized_keys lookup are stubs returning model keys - real signature algorithms are C16, authorized_keys matching is C17',
    'GSS and host-based methods are not driven (their contexts live in C libraries); reload_config is a no-op',
    'at most 2 USERAUTH requests and 1 keyboard-interactive response per run; certificates are real SSHOpenSSHCertificate instances built field by field (their real validate() runs) around model keys',
]

USERS = ['alice', 'bob']


class Owner:
    """SSHServer stub with recording validators"""

    def __init__(self, loop, verdicts, suspend):
        self.loop = loop
        self.verdicts = verdicts        # {user: bool}
        self.suspend = suspend          # {user: bool}
        self.ok = []                    # users for which a validator returned True
        self.futs = {}
        self.completed = 0
        self.calls = []

    def begin_auth(self, username):
        return True

    def password_auth_supported(self):
        return True

    def kbdint_auth_supported(self):
        return True

    def public_key_auth_supported(self):
        return True

    def host_based_auth_supported(self):
        return False

    async def _decide(self, user):
        self.calls.append(user)
        if self.suspend.get(user):
            fut = self.loop.create_future()
            self.futs[user] = fut
            await fut
        v = self.verdicts.get(user, False)
        if v:
            self.ok.append(user)
        return v

    async def validate_password(self, username, password):
        return await self._decide(username)

    def get_kbdint_challenge(self, username, lang, submethods):
        return ('', '', 'en', (('Code:', False),))

    async def validate_kbdint_response(self, username, responses):
        return await self._decide(username)

    async def validate_public_key(self, username, key):
        return await self._decide(username)

    def validate_ca_key(self, username, key):
        return False

    def auth_completed(self):
        self.completed += 1

    def connection_lost(self, exc):
        pass

    def __getattr__(self, name):
        if name.startswith('__'):
            raise AttributeError(name)
        return lambda *a, **k: None


def _server(loop, owner, rc=0):
    conn = mkconn(True, loop=loop, password_auth=True, kbdint_auth=True, public_key_auth=True)
    out = instrument(conn)
    conn._owner = owner
    conn._recv_encryption = _Ident()
    conn._kex_complete = True
    conn._auth_in_progress = True
    conn._session_id = b'SESSION'
    conn._recv_handler = conn._recv_pkthdr
    sent = []
    conn._send = lambda data: sent.append(data[5])       # packet type of each plaintext packet
    out.sent = sent

    async def reload_config():
        # the real one awaits run_in_executor: it takes rc loop steps here
        for _ in range(rc):
            fut = loop.create_future()
            loop.call_soon(fut.set_result, None)
            await fut
        return None

    conn.reload_config = reload_config
    conn.send_server_host_keys = lambda: None
    return conn, out


def _req(user, method, rest):
    return frame(Byte(50) + String(user) + String('ssh-connection') + String(method) + rest)


def _pw(user):
    return _req(user, 'password', Boolean(False) + String('pw'))


def _kbd(user):
    return _req(user, 'keyboard-interactive', String('') + String(''))


class ModelKey:
    def __init__(self, kid, options=None):
        self.kid = kid
        self.algorithm = b'model'
        self.sig_algorithms = (b'model',)
        self.options = options or {}

    def verify(self, data, sig):
        return sig == b'SIG' + self.kid + data

    def set_touch_required(self, v):
        pass


def race(m1: int, u2: int, m2: int, vA: bool, vB: bool, sA: bool, sB: bool,
         order: int, s0: int, s1: int, s2: int) -> bool:
    """Two pipelined authentication requests: the first for alice (password or
    keyboard-interactive), the second for alice or bob (password, none, or
    keyboard-interactive), validators completing at once or at a symbolic
    later moment relative to the arrival of the second request.  If the
    connection ends up authenticated then a validator accepted a credential
    for exactly the user the connection is authenticated as; SUCCESS is sent
    at most once; the application is told once."""
    loop = MiniLoop()
    user2 = pick(USERS, u2)
    owner = Owner(loop, {'alice': vA, 'bob': vB}, {'alice': sA, 'bob': sB})
    saved = (C.asyncio, C.decode_ssh_public_key, C.decode_ssh_certificate)
    C.asyncio = AsyncioShim(loop)

    def _dk(data):
        if data == b'KEY-A':
            return ModelKey(data)
        raise C.KeyImportError('bad')

    def _dc(data, *a):
        raise C.KeyImportError('not a cert')

    C.decode_ssh_public_key, C.decode_ssh_certificate = _dk, _dc
    try:
        conn, out = _server(loop, owner)
        if m1 == 2:
            # publickey: alice proves possession of KEY-A (free signature over session id + this request);
            # whether KEY-A is acceptable for the user is the application's (asynchronous) decision
            prefix = Byte(50) + String('alice') + String('ssh-connection') + String('publickey') + Boolean(True) + \
                String(b'model') + String(b'KEY-A')
            sig = b'SIG' + b'KEY-A' + String(b'SESSION') + prefix
            deliver(conn, _req('alice', 'publickey', Boolean(True) + String(b'model') + String(b'KEY-A') + String(sig)))
        else:
            deliver(conn, _kbd('alice') if m1 == 1 else _pw('alice'))
        loop.run(s0 + 8 if m1 == 1 else s0)
        if m1 == 1:
            # answer the challenge (only if one was sent)
            if 60 in out.sent:
                deliver(conn, frame(Byte(61) + UInt32(1) + String('123456')))
                loop.run(s0)

        def second():
            if m2 == 0:
                deliver(conn, _pw(user2))
            elif m2 == 1:
                deliver(conn, _req(user2, 'none', b''))
            else:
                deliver(conn, _kbd(user2))

        def resolve(user):
            fut = owner.futs.pop(user, None)
            if fut is not None and not fut.done():
                fut.set_result(None)

        if order == 0:
            resolve('alice')
            loop.run(s1)
            second()
        else:
            second()
            loop.run(s1)
            resolve('alice')
        loop.run(s2)
        resolve('alice')
        resolve('bob')
        loop.run(60)
        if 60 in out.sent[-2:] and m2 == 2 and not conn._auth_complete:
            deliver(conn, frame(Byte(61) + UInt32(1) + String('123456')))
            loop.run(10)
            resolve('alice')
            resolve('bob')
            loop.run(60)
    finally:
        C.asyncio, C.decode_ssh_public_key, C.decode_ssh_certificate = saved
    if loop.exceptions:
        return False
    if out.closed or out.internal:
        return not conn._auth_complete or conn._username in owner.ok
    nsucc = len([t for t in out.sent if t == 52])
    if conn._auth_complete:
        if conn._username not in owner.ok:
            return False                       # authenticated as a user nobody vouched for
        if conn.get_extra_info('username') != conn._username:
            return False
        return nsucc == 1 and owner.completed == 1
    return nsucc == 0 and owner.completed == 0


def pk_binding(flaw: int, probe_first: bool, trailing: bool) -> bool:
    """publickey authentication with a free signature model: access is granted
    iff the signature is over String(session id) || byte(50) || user ||
    "ssh-connection" || "publickey" || TRUE || alg || key blob of *this*
    connection and *this* request, made by a key authorised for the user; a
    probe (no signature) never grants access; an empty or truncated signature,
    or one over another session id / user / service / key never does."""
    loop = MiniLoop()
    owner = Owner(loop, {'alice': True, 'bob': True}, {})
    saved = (C.asyncio, C.decode_ssh_public_key, C.decode_ssh_certificate)
    C.asyncio = AsyncioShim(loop)

    def dec_key(data):
        if data in (b'KEY-A', b'KEY-B'):
            return ModelKey(data)
        raise C.KeyImportError('bad')

    def dec_cert(data, *a):
        raise C.KeyImportError('not a cert')

    C.decode_ssh_public_key = dec_key
    C.decode_ssh_certificate = dec_cert
    try:
        conn, out = _server(loop, owner)

        class AK:      # authorized_keys model: alice <- KEY-A only
            def validate(self, key, host, addr, principals=None, ca=False):
                if key.kid == b'KEY-A' and conn._username == 'alice' and not ca:
                    return {}
                return None

            def __bool__(self):
                return True

        conn._authorized_client_keys = AK()
        owner.public_key_auth_supported = lambda: False
        owner.validate_public_key = lambda u, k: False
        user, sid, svc, keyb, signer = 'alice', b'SESSION', 'ssh-connection', b'KEY-A', b'KEY-A'
        kinds = ['ok', 'sid', 'user', 'svc', 'key', 'empty', 'trunc', 'otherkey', 'method']
        kind = pick(kinds, flaw)
        signed_user, signed_svc, signed_method, signed_key = user, svc, 'publickey', keyb
        if kind == 'sid':
            sid = b'OTHERID'
        elif kind == 'user':
            signed_user = 'bob'
        elif kind == 'svc':
            signed_svc = 'ssh-userauth'
        elif kind == 'key':
            signed_key = b'KEY-B'
        elif kind == 'otherkey':
            signer = b'KEY-B'
        elif kind == 'method':
            signed_method = 'hostbased'
        prefix = Byte(50) + String(signed_user) + String(signed_svc) + String(signed_method) + Boolean(True) + \
            String(b'model') + String(signed_key)
        sig = b'SIG' + signer + String(sid) + prefix
        if kind == 'empty':
            sig = b''
        elif kind == 'trunc':
            sig = sig[:-1]
        if probe_first:
            deliver(conn, _req(user, 'publickey', Boolean(False) + String(b'model') + String(keyb)))
            loop.run(40)
            if conn._auth_complete:
                return False                   # a probe must never authenticate
            if 60 not in out.sent:
                return False                   # PK_OK expected for an authorised key
        body = Boolean(True) + String(b'model') + String(keyb) + String(sig) + (b'\0' if trailing else b'')
        deliver(conn, _req(user, 'publickey', body))
        loop.run(40)
    finally:
        C.asyncio, C.decode_ssh_public_key, C.decode_ssh_certificate = saved
    if loop.exceptions:
        return False
    want = kind == 'ok' and not trailing
    if conn._auth_complete != want:
        return False
    if want:
        return conn._username == 'alice' and out.sent.count(52) == 1
    return out.sent.count(52) == 0


def after_success(which: int, final: bool) -> bool:
    """After success: further USERAUTH requests are ignored until the first
    non-auth message and fatal afterwards; they never change the user."""
    loop = MiniLoop()
    owner = Owner(loop, {'alice': True, 'bob': True}, {})
    saved = C.asyncio
    C.asyncio = AsyncioShim(loop)
    try:
        conn, out = _server(loop, owner)
        deliver(conn, _pw('alice'))
        loop.run(40)
        if not conn._auth_complete or conn._username != 'alice':
            return False
        if final:
            deliver(conn, frame(Byte(80) + String('x') + Boolean(False)))
            loop.run(20)
        n = len(owner.calls)
        deliver(conn, _pw('bob') if which == 0 else _req('bob', 'none', b''))
        loop.run(40)
    finally:
        C.asyncio = saved
    if conn._username != 'alice' or conn.get_extra_info('username') != 'alice':
        return False
    if len(owner.calls) != n or out.sent.count(52) != 1:
        return False
    if final:
        return len(out.closed) == 1 and isinstance(out.closed[0], ProtocolError)
    return not out.closed


def stale_response(u2: int, m2: int, vA: bool, vB: bool, sA: bool, sB: bool, gap: int, s1: int, s2: int, rc: int) -> bool:
    """keyboard-interactive for alice is challenged; before answering, a
    second request (alice or bob; password / none / keyboard-interactive)
    arrives and alice's INFO_RESPONSE follows it after 0..2 loop steps.  The
    answer belongs to a superseded attempt: it must never authenticate the
    connection as a user for whom no validator accepted a credential."""
    loop = MiniLoop()
    user2 = pick(USERS, u2)
    owner = Owner(loop, {'alice': vA, 'bob': vB}, {'alice': sA, 'bob': sB})
    saved = C.asyncio
    C.asyncio = AsyncioShim(loop)
    try:
        conn, out = _server(loop, owner, conc(rc, 0, 3))
        deliver(conn, _kbd('alice'))
        loop.run(10)
        if 60 not in out.sent:
            return False
        if m2 == 0:
            deliver(conn, _pw(user2))
        elif m2 == 1:
            deliver(conn, _req(user2, 'none', b''))
        else:
            deliver(conn, _kbd(user2))
        loop.run(gap)
        nchal = out.sent.count(60)
        if not out.closed:
            deliver(conn, frame(Byte(61) + UInt32(1) + String('123456')))
        loop.run(s1)
        for u in USERS:
            fut = owner.futs.pop(u, None)
            if fut is not None and not fut.done():
                fut.set_result(None)
        loop.run(s2 + 40)
        for u in USERS:
            fut = owner.futs.pop(u, None)
            if fut is not None and not fut.done():
                fut.set_result(None)
        loop.run(40)
    finally:
        C.asyncio = saved
    if loop.exceptions:
        return False
    nsucc = out.sent.count(52)
    if conn._auth_complete:
        if conn._username not in owner.ok or conn.get_extra_info('username') != conn._username:
            return False
        return nsucc == 1 and owner.completed == 1
    return nsucc == 0 and owner.completed == 0


def response_after_failure(first_ok: bool, second_ok: bool, n2: int, s: int) -> bool:
    """keyboard-interactive: once an attempt has been answered (FAILURE, or
    SUCCESS) its challenge is spent - a further INFO_RESPONSE without a new
    USERAUTH_REQUEST is not validated (no extra guesses) and never
    authenticates; the connection ends with a protocol error."""
    loop = MiniLoop()
    owner = Owner(loop, {'alice': first_ok}, {})
    saved = C.asyncio
    C.asyncio = AsyncioShim(loop)
    try:
        conn, out = _server(loop, owner)
        deliver(conn, _kbd('alice'))
        loop.run(10)
        if 60 not in out.sent:
            return False
        deliver(conn, frame(Byte(61) + UInt32(1) + String('guess-1')))
        loop.run(20 + s)
        if first_ok:
            return conn._auth_complete and out.sent.count(52) == 1
        if conn._auth_complete or out.sent.count(51) != 1:
            return False
        calls = len(owner.calls)
        owner.verdicts['alice'] = second_ok          # the next guess would be right
        deliver(conn, frame(Byte(61) + UInt32(conc(n2, 0, 2)) + String('guess-2') * conc(n2, 0, 2)))
        loop.run(20 + s)
    finally:
        C.asyncio = saved
    if loop.exceptions or out.internal:
        return False
    if conn._auth_complete or out.sent.count(52) != 0:
        return False
    if len(owner.calls) != calls:
        return False                       # the stale answer was handed to the validator: a free extra guess
    return len(out.closed) == 1 and isinstance(out.closed[0], ProtocolError)


def begin_auth_race(u2: int, m2: int, vR: bool, order: int, s1: int, s2: int, rc: int) -> bool:
    """A server that lets "guest" in without authentication (begin_auth
    returns False, asynchronously) and requires it for "root".  A request for
    guest is followed, before guest's begin_auth has completed, by a request
    for root: the connection may end up authenticated as guest (who needs no
    credential) or as root only if root's password validator accepted - never
    as root on the strength of guest's exemption."""
    loop = MiniLoop()
    user2 = pick(['root', 'guest'], u2)
    owner = Owner(loop, {'root': vR}, {})
    futs = {}

    async def begin_auth(username):
        fut = loop.create_future()
        futs.setdefault(username, []).append(fut)
        await fut
        return username != 'guest'

    owner.begin_auth = begin_auth
    saved = C.asyncio
    C.asyncio = AsyncioShim(loop)

    def release(user):
        for fut in futs.pop(user, []):
            if not fut.done():
                fut.set_result(None)

    try:
        conn, out = _server(loop, owner, conc(rc, 0, 2))
        deliver(conn, _req('guest', 'none', b''))
        loop.run(4)

        def second():
            deliver(conn, _pw(user2) if m2 == 0 else _req(user2, 'none', b''))

        if order == 0:
            release('guest')
            loop.run(s1)
            second()
        else:
            second()
            loop.run(s1)
            release('guest')
        loop.run(s2)
        for _ in range(3):
            release('guest')
            release('root')
            loop.run(30)
    finally:
        C.asyncio = saved
    if loop.exceptions or out.internal:
        return False
    nsucc = out.sent.count(52)
    if conn._auth_complete:
        if conn._username == 'guest':
            ok = True
        else:
            ok = 'root' in owner.ok            # root only by an accepted password
        return ok and nsucc == 1 and conn.get_extra_info('username') == conn._username
    return nsucc == 0


class ModelCert:
    pass


def _mkcert(ca, princ, ctype, after, before, key):
    cert = C.SSHOpenSSHCertificate.__new__(C.SSHOpenSSHCertificate)
    cert._cert_type = ctype
    cert._valid_after = after
    cert._valid_before = before
    cert.principals = list(princ)
    cert.signing_key = ca
    cert.key = key
    cert.is_x509_chain = False
    cert.options = {}
    return cert


CPRINC = [[], ['alice'], ['bob'], ['ops'], ['ops', 'bob']]


def cert_user(ca1: int, pr1: int, u1: int, ok1: bool, ca2: int, pr2: int, u2: int, entry_pr: bool, owner_ca: bool,
              t2: int, ok2: bool) -> bool:
    """Two successive publickey requests carrying OpenSSH user certificates.
    CA1 is trusted by an authorized_keys cert-authority entry (optionally with
    principals="ops"), CA2 by the application's validate_ca_key.  Access is
    granted for a request iff the certificate's own CA is trusted, the
    certificate is a currently valid user certificate, and it covers the
    requested user (or, for the principals= entry, lists one of the entry's
    principals); nothing an earlier request left behind may change that."""
    from asyncssh import public_key as PK
    loop = MiniLoop()
    owner = Owner(loop, {}, {})
    CA = [ModelKey(b'CA1'), ModelKey(b'CA2'), ModelKey(b'CA3')]
    owner.validate_ca_key = lambda user, key: owner_ca and key.kid == b'CA2'
    owner.validate_public_key = lambda user, key: False
    kA, kB = ModelKey(b'KEY-A'), ModelKey(b'KEY-B')
    c1 = _mkcert(CA[ca1], pick(CPRINC, pr1), PK.CERT_TYPE_USER, 0, 10 if ok1 else 0, kA)
    now = 1
    c2 = _mkcert(CA[ca2], pick(CPRINC, pr2), t2, 0, 3 if ok2 else 1, kB)
    certs = {b'CERT-1': c1, b'CERT-2': c2}
    saved = (C.asyncio, C.decode_ssh_public_key, C.decode_ssh_certificate, PK.time)

    def dec_cert(data, *a):
        if data in certs:
            return certs[data]
        raise C.KeyImportError('no')

    def dec_key(data):
        raise C.KeyImportError('no')

    class Clock:
        def time(self):
            return now

    C.asyncio = AsyncioShim(loop)
    C.decode_ssh_public_key, C.decode_ssh_certificate, PK.time = dec_key, dec_cert, Clock()
    try:
        conn, out = _server(loop, owner)

        class AK:      # authorized_keys model: cert-authority[,principals="ops"] CA1
            def validate(self, key, host, addr, principals=None, ca=False):
                if ca and key.kid == b'CA1':
                    if entry_pr:
                        return {'principals': ['ops']} if 'ops' in (principals or []) else None
                    return {}
                return None

            def __bool__(self):
                return True

        conn._authorized_client_keys = AK()
        users = [pick(USERS, u1), pick(USERS, u2)]
        for i, (blob, key) in enumerate(((b'CERT-1', kA), (b'CERT-2', kB))):
            if conn._auth_complete or out.closed:
                break
            prefix = Byte(50) + String(users[i]) + String('ssh-connection') + String('publickey') + Boolean(True) + \
                String(b'model') + String(blob)
            sig = b'SIG' + key.kid + String(b'SESSION') + prefix
            deliver(conn, _req(users[i], 'publickey', Boolean(True) + String(b'model') + String(blob) + String(sig)))
            loop.run(40)
    finally:
        C.asyncio, C.decode_ssh_public_key, C.decode_ssh_certificate, PK.time = saved
    if loop.exceptions:
        return False

    def grant(cert, user):
        if not (cert._cert_type == PK.CERT_TYPE_USER and cert._valid_after <= now < cert._valid_before):
            return False
        covers = (not cert.principals) or user in cert.principals
        if cert.signing_key.kid == b'CA1':
            if entry_pr:
                return 'ops' in cert.principals
            return covers
        if cert.signing_key.kid == b'CA2':
            return owner_ca and covers
        return False

    g1 = grant(c1, users[0])
    g2 = grant(c2, users[1])
    if g1:
        return conn._auth_complete and conn._username == users[0] and out.sent.count(52) == 1
    if g2:
        return conn._auth_complete and conn._username == users[1] and out.sent.count(52) == 1
    return not conn._auth_complete and out.sent.count(52) == 0


OBLIGATIONS = [
    Ob('race', race,
       sym=dict(m1=R(0, 2), u2=R(0, 1), m2=R(0, 2), vA=B, vB=B, sA=B, sB=B, order=R(0, 1),
                s0=R(0, 2), s1=R(0, 2), s2=R(0, 2)),
       shards=dict(m1=[0, 1, 2], m2=[0, 1, 2], order=[0, 1]),
       timeout=500, thorough_timeout=900,
       thorough_sym=dict(s0=R(0, 6), s1=R(0, 6), s2=R(0, 6)),
       functions=[C.SSHConnection._process_userauth_request, C.SSHConnection._finish_userauth,
                  C.SSHConnection.send_userauth_success, C.SSHConnection.send_userauth_failure,
                  AU.lookup_server_auth, AU._ServerPasswordAuth._start, AU._ServerKbdIntAuth._start,
                  AU._ServerKbdIntAuth._process_info_response, AU._ServerKbdIntAuth._validate_response,
                  AU.Auth.cancel, AU.Auth.create_task, C.SSHServerConnection.validate_password],
       bounds='2 pipelined requests (first: alice by password, keyboard-interactive incl. its response, or publickey with a valid signature; second: alice/bob by password, none or '
              'keyboard-interactive); symbolic verdicts, each validator immediate or waiting on a back-end future; second request before/after the '
              'first validator completes; 0..2 (thorough 0..6) loop steps between events; FIFO scheduling'),
    Ob('stale_response', stale_response,
       sym=dict(u2=R(0, 1), m2=R(0, 2), vA=B, vB=B, sA=B, sB=B, gap=R(0, 2), s1=R(0, 2), s2=R(0, 1), rc=R(0, 3)),
       shards=dict(m2=[0, 1, 2], u2=[0, 1], rc=[0, 1, 3]), timeout=400, thorough_timeout=900,
       thorough_shards=dict(m2=[0, 1, 2], u2=[0, 1], rc=[0, 1, 2, 3]),
       thorough_sym=dict(gap=R(0, 4), s1=R(0, 4), s2=R(0, 3)),
       functions=[C.SSHConnection._process_userauth_request, C.SSHConnection.process_packet, AU._ServerKbdIntAuth._process_info_response,
                  AU.Auth.cancel, AU.Auth.create_task, C.SSHConnection._finish_userauth],
       bounds='keyboard-interactive challenge for alice, then a superseding request (alice/bob; password/none/keyboard-interactive) followed after 0..2 '
              '(thorough 0..5) loop steps by the answer to the old challenge; reload_config (run_in_executor in the real code) taking 0..3 loop steps on a user switch; symbolic verdicts and validator completion times'),
    Ob('cert_user', cert_user,
       sym=dict(ca1=R(0, 2), pr1=R(0, 3), ok1=B, ca2=R(0, 2), pr2=R(0, 3), u2=R(0, 1), entry_pr=B, owner_ca=B,
                t2=R(1, 2), ok2=B),
       shards=dict(ca1=[0, 1, 2], ca2=[0, 1, 2], entry_pr=[False, True]), fixed=dict(u1=0), timeout=400, thorough_timeout=1200,
       thorough_sym=dict(u1=R(0, 1), pr1=R(0, 4), pr2=R(0, 4)),
       functions=[C.SSHServerConnection._validate_openssh_certificate, C.SSHServerConnection._validate_client_certificate,
                  C.SSHServerConnection.validate_public_key, C.SSHServerConnection.get_key_option, AU._ServerPublicKeyAuth._start,
                  'asyncssh.public_key.SSHOpenSSHCertificate.validate'],
       bounds='2 successive publickey requests with OpenSSH certificates: CA in {authorized_keys CA (with/without principals="ops"), application-trusted CA, '
              'unknown CA}, 4 (thorough 5) principal lists each, first request for alice (thorough alice/bob), second for alice/bob, each certificate valid or expired (window arithmetic is C04.cert_validate), second of user or host type'),
    Ob('response_after_failure', response_after_failure, sym=dict(first_ok=B, second_ok=B, n2=R(0, 2), s=R(0, 2)), timeout=200,
       functions=[C.SSHConnection.send_userauth_failure, C.SSHConnection.process_packet, AU._ServerKbdIntAuth._process_info_response],
       bounds='one keyboard-interactive attempt answered wrongly/rightly, then a second INFO_RESPONSE with 0..2 answers and no new request'),
    Ob('begin_auth_race', begin_auth_race,
       sym=dict(u2=R(0, 1), m2=R(0, 1), vR=B, order=R(0, 1), s1=R(0, 2), s2=R(0, 2), rc=R(0, 2)),
       shards=dict(order=[0, 1], u2=[0, 1]), timeout=300, thorough_timeout=900, thorough_sym=dict(s1=R(0, 5), s2=R(0, 5)),
       functions=[C.SSHConnection._process_userauth_request, C.SSHConnection._finish_userauth, C.SSHConnection.send_userauth_success],
       bounds='request for an exempt user (asynchronous begin_auth -> False) then a request for root/guest (password or none) before or after that begin_auth '
              'completes; 0..2 (thorough 0..5) loop steps between events; reload_config taking 0..2 steps'),
    Ob('pk_binding', pk_binding,
       sym=dict(flaw=R(0, 8), probe_first=B, trailing=B), timeout=150,
       functions=[AU._ServerPublicKeyAuth._start, C.SSHServerConnection.validate_public_key,
                  C.SSHServerConnection._validate_client_public_key, C.SSHServerConnection._validate_client_certificate],
       bounds='one publickey request (optionally preceded by a probe) whose signature is correct or flawed in one of 8 ways, with or without a trailing byte'),
    Ob('after_success', after_success, sym=dict(which=R(0, 1), final=B), timeout=90,
       functions=[C.SSHConnection._process_userauth_request],
       bounds='one request for another user after success, before/after the first non-auth message'),
]

MANIFEST = dict(
    engines='A',
    technique='bounded symbolic execution (CrossHair/z3) of the real server authentication code on a FIFO event-loop model with symbolic validator verdicts, completion times and request arrival times; free signature model',
    text='Bounded symbolic verification of the server authentication state machine: two pipelined USERAUTH requests (password / keyboard-interactive / '
         'none, same or different user) with symbolic validator verdicts and symbolic timing of validator completion vs. arrival of the second '
         'request on a FIFO loop model - the connection is authenticated only as a user for whom a validator returned true, SUCCESS is sent and the '
         'application notified exactly once; publickey: under a free signature model access is granted iff the signature covers this session id, this '
         'user, service, method and key, and a probe, empty or truncated signature never grants it; requests after success never change the user; an answer to a superseded or already answered keyboard-interactive challenge is never validated; a request superseded while reload_config / an asynchronous begin_auth was pending has no effect; certificate requests are granted by the CA trust source of the presented certificate and principals only (two successive requests, authorized_keys CA vs application-trusted CA).',
    note='Bounded schedules (2 requests, <= 3-6 loop steps between events, FIFO loop model instead of the real selector loop); application callbacks, '
         'key decoding and authorized_keys lookup are stubs; GSS/host-based methods and the client side (agent, key loading) are not driven. '
         'Trusted: CrossHair, z3, the loop model in vf/stubs.py, harness oracles.')
