"""C09 - Everything terminates: no hung waiter, one orderly close"""

import asyncio

from asyncssh import channel as CH
from asyncssh import connection as C
from asyncssh import sftp as S
from asyncssh import stream as ST
from asyncssh.misc import ChannelOpenError, ConnectionLost, DisconnectError, ProtocolError
from asyncssh.packet import SSHPacket, UInt32, String, Byte, Boolean

from vf.core import Ob, R, B
from vf.rt import assume, pick, conc, cb, notrace
from vf.stubs import MiniLoop, NullLogger, chan_conn, mkconn, AsyncioShim
from props.chanlib import mkchan
from props.chanlib import split_sent
from props.connlib import frame, pframe, instrument, deliver
from props.C10 import _Ident
from props.C14 import Writer

ASSUMPTIONS = [
    'event loop = FIFO MiniLoop; each event is followed by running the loop to quiescence (call_soon callbacks, task wake-ups) - the real selector '
    'loop\'s timing, sockets and subprocess redirections are outside',
    'one channel with a stream session, one pending channel request, one blocked reader, one wait_closed() waiter; <= 4-5 events per history',
    'the connection below the channel is a recording stub for channel histories; connection-level cleanup is run on the real SSHConnection._cleanup with recording channel/listener stubs',
]

EVS = ['data', 'pause', 'resume', 'peer_eof', 'peer_close', 'close', 'abort', 'write_eof', 'conn_lost', 'reply']


class Sess(ST.SSHClientStreamSession):
    """real stream session + callback log"""

    def __init__(self):
        super().__init__()
        self.cb = []

    def connection_lost(self, exc):
        self.cb.append('lost')
        self._inside = True
        try:
            super().connection_lost(exc)       # calls self.eof_received() internally
        finally:
            self._inside = False

    def eof_received(self):
        if not getattr(self, '_inside', False):
            self.cb.append('eof')              # only callbacks made by the channel are logged
        return super().eof_received()

    def data_received(self, data, datatype):
        self.cb.append('data')
        super().data_received(data, datatype)


def _task(loop, coro, out, name):
    async def run():
        try:
            out[name] = ('ret', await coro)
        except asyncio.CancelledError:
            out[name] = ('cancelled',)
            raise
        except Exception as e:
            out[name] = ('exc', type(e).__name__)
    return loop.create_task(run())


def chan_history(e0: int, e1: int, e2: int, e3: int, e4: int, nev: int, lostexc: bool, paused0: bool, starting: bool = False) -> bool:
    """Open channel with a pending request, a blocked reader, a writer blocked in
    drain() and a wait_closed() waiter; any history of events from {data, pause, resume, peer
    EOF, peer CLOSE, local close / abort / write_eof, connection lost, request
    reply}: once both sides have closed (or the connection is lost) every
    waiter is done, the session saw connection_lost exactly once with nothing
    after it, and the channel is unregistered; finally losing the connection
    always completes everything that is still pending."""
    evs = [pick(EVS, e) for e in (e0, e1, e2, e3, e4)[:nev]]
    lostexc, paused0, starting = cb(lostexc), cb(paused0), cb(starting)
    with notrace():          # the history is concrete from here on: run the real code natively
        return _chan_history(evs, lostexc, paused0, starting)


def _chan_history(evs, lostexc, paused0, starting=False):
    loop = MiniLoop()
    sess = Sess()
    chan, conn, _ = mkchan(cls=CH.SSHClientChannel, window=64, pktsize=32, loop=loop, session=sess)
    sess.connection_made(chan)
    rc = chan._recv_chan
    res = {}
    _task(loop, chan._make_request(b'x'), res, 'request')
    _task(loop, sess.read(None, 100, True), res, 'read')
    _task(loop, chan.wait_closed(), res, 'closed')
    # a writer blocked in drain(): the peer's window is exhausted and the buffer is above the high-water mark
    chan._send_window = 0
    chan.set_write_buffer_limits(high=1, low=0)
    chan.write(b'queued-data')
    _task(loop, sess.drain(None), res, 'drain')
    if starting:
        chan._recv_paused = 'starting'       # session requests still outstanding: reading has not been started yet
    elif paused0:
        chan.pause_reading()
    loop.run(100)
    local_closed = peer_closed = lost = peer_closed_empty = False
    for ev in evs:
        if lost or chan._recv_chan is None:
            break
        try:
            if ev == 'data':
                chan._process_data(94, 0, SSHPacket(String(b'dd')))
            elif ev == 'pause':
                chan.pause_reading()
            elif ev == 'resume':
                chan.resume_reading()
            elif ev == 'peer_eof':
                chan._process_eof(96, 0, SSHPacket(b''))
            elif ev == 'peer_close':
                # with nothing buffered for the application a peer CLOSE is answered and completes the close by itself
                peer_closed_empty = not chan._recv_buf
                chan._process_close(97, 0, SSHPacket(b''))
                peer_closed = True
            elif ev == 'close':
                chan.close()
                local_closed = True
            elif ev == 'abort':
                chan.abort()
                local_closed = True
            elif ev == 'write_eof':
                chan.write_eof()
            elif ev == 'conn_lost':
                chan.process_connection_close(ProtocolError('x') if lostexc else None)
                lost = True
            elif ev == 'reply':
                chan._process_response(99, 0, SSHPacket(b''))
        except ProtocolError:
            # the peer broke the channel protocol (e.g. data after EOF): the real connection would be torn down
            chan.process_connection_close(ProtocolError('peer'))
            lost = True
        loop.run(200)
        if loop.exceptions:
            return False
    finished = lost or (local_closed and peer_closed) or peer_closed_empty
    if peer_closed and not lost:
        # the peer's CLOSE must be answered by ours - exactly one CLOSE on the wire, whatever was still queued for sending
        if [k for k, _, _, _ in split_sent(conn.sent)].count('close') != 1:
            return False
    if finished:
        # an orderly two-sided close (or connection loss) must already have released everything
        if not ('request' in res and 'read' in res and 'closed' in res and 'drain' in res):
            return False
        if sess.cb.count('lost') != 1 or sess.cb[-1] != 'lost' or conn.removed != [rc] or chan._recv_chan is not None:
            return False
    # whatever state we are in, losing the connection now releases everything that is still pending
    if chan._conn is not None:
        chan.process_connection_close(None)
    loop.run(200)
    if loop.exceptions or loop.unretrieved():
        return False
    if not ('request' in res and 'read' in res and 'closed' in res and 'drain' in res):
        return False
    if sess.cb.count('lost') != 1 or sess.cb[-1] != 'lost' or sess.cb.count('eof') > 2:
        return False
    return conn.removed == [rc] and chan._recv_chan is None and not loop.pending()


def open_history(e0: int, e1: int, e2: int) -> bool:
    """Channel being opened: confirmation, failure or connection loss (in any
    order, possibly repeated) resolve the opener exactly once; a second
    confirmation/failure is a protocol error; nothing is left pending."""
    loop = MiniLoop()
    conn = chan_conn(loop)
    conn.detach_x11_listener = lambda c: None
    chan = CH.SSHChannel(conn, loop, None, 'strict', 64, 32)
    chan._logger = NullLogger()
    res = {}
    _task(loop, chan._open(b'session'), res, 'open')
    loop.run(50)
    errs = 0
    for e in (e0, e1, e2):
        if chan._conn is None:
            break
        try:
            if e == 0:
                chan.process_open_confirmation(5, 10, 8, SSHPacket(b''))
            elif e == 1:
                chan.process_open_failure(2, 'no', 'en')
            elif e == 2:
                chan.process_connection_close(None)
        except ProtocolError:
            errs += 1
            chan.process_connection_close(ProtocolError('x'))
        loop.run(50)
    if chan._conn is not None:
        chan.process_connection_close(None)
    loop.run(50)
    if loop.exceptions or loop.unretrieved() or loop.pending():
        return False
    return 'open' in res and conn.removed == [0] and chan._open_waiter is None


class RecChan:
    def __init__(self, conn, log, n):
        self.conn, self.log, self.n = conn, log, n

    def process_connection_close(self, exc):
        self.log.append(('chan_closed', self.n))
        self.conn._channels.pop(self.n, None)

    def close(self):
        self.log.append(('chan_close_requested', self.n))


class RecListener:
    def __init__(self, log, n):
        self.log, self.n = log, n

    def close(self):
        self.log.append(('listener_closed', self.n))


def conn_cleanup(how: int, nchan: int, nlisten: int, nglobal: int, auth: bool, exc: bool) -> bool:
    """Connection end by local close / abort / disconnect, peer DISCONNECT or
    transport loss: every channel is told once, every listener closed, every
    global-request waiter resolved, the pending auth cancelled, the owner
    notified exactly once, timers cancelled, the close event set - and a second
    loss notification does nothing more."""
    loop = MiniLoop()
    nchan, nlisten, nglobal = conc(nchan, 0, 2), conc(nlisten, 0, 2), conc(nglobal, 0, 2)
    saved = C.asyncio
    C.asyncio = AsyncioShim(loop)
    try:
        conn = mkconn(True, loop=loop)
        conn._recv_encryption = _Ident()
        conn._send_encryption = None
        conn._kex_complete = conn._auth_complete = True
        conn._recv_handler = conn._recv_pkthdr
        conn._send = lambda data: None
        log = []

        class Owner:
            def connection_lost(self, e):
                log.append(('owner_lost', type(e).__name__ if e else None))

        conn._owner = Owner()
        for i in range(nchan):
            conn._channels[i] = RecChan(conn, log, i)
        for i in range(nlisten):
            conn._local_listeners[('h', i)] = RecListener(log, i)
        waiters = []
        for i in range(nglobal):
            f = loop.create_future()
            conn._global_request_waiters.append(f)
            waiters.append(f)

        class A:
            def cancel(self):
                log.append(('auth_cancel',))

        if auth:
            conn._auth = A()
        tr = conn._transport
        conn._login_timer = loop.call_later(10, lambda: None)
        closed = {}
        _task(loop, conn.wait_closed(), closed, 'wait_closed')
        loop.run(20)
        how = pick(['close', 'abort', 'lost', 'peer_disconnect', 'disconnect'], how)
        if how == 'close':
            conn.close()
        elif how == 'abort':
            conn.abort()
        elif how == 'lost':
            conn.connection_lost(ConnectionLost('x') if exc else None)
        elif how == 'peer_disconnect':
            deliver(conn, frame(Byte(1) + UInt32(11) + String('bye') + String('')))
        else:
            conn.disconnect(11, 'bye')
        loop.run(100)
        # the transport reports the loss (again): must be harmless
        conn.connection_lost(None)
        loop.run(100)
    finally:
        C.asyncio = saved
    if loop.exceptions or loop.unretrieved():
        return False
    if sorted(x for x in log if x[0] == 'chan_closed') != [('chan_closed', i) for i in range(nchan)]:
        return False
    if sorted(x for x in log if x[0] == 'listener_closed') != [('listener_closed', i) for i in range(nlisten)]:
        return False
    if len([x for x in log if x[0] == 'owner_lost']) != 1:
        return False
    if auth and ('auth_cancel',) not in log:
        return False
    if not all(f.done() for f in waiters):
        return False
    if 'wait_closed' not in closed or conn._channels or not conn.is_closed():
        return False
    if [h for h in loop.timers if not h.cancelled_]:
        return False
    return tr.aborted + tr.closed >= 1


def sftp_client_cleanup(n: int, how: int) -> bool:
    """SFTP client: when the session ends (EOF, error, malformed packet) every
    outstanding request fails with an error; none is left pending."""
    loop = MiniLoop()
    n = conc(n, 0, 3)
    h = S.SFTPClientHandler.__new__(S.SFTPClientHandler)
    h._loop = loop
    h._reader = object()
    h._writer = Writer()
    h._logger = NullLogger()
    h._version = 3
    h._requests = {}
    h._next_pktid = 0
    h.log_sent_packet = lambda *a, **k: None
    futs = []
    for i in range(n):
        f = loop.create_future()
        h._send_request(S.FXP_STAT, [String(b'/p')], f)
        futs.append(f)
    exc = pick([None, S.SFTPConnectionLost('x'), S.SFTPBadMessage('bad')], how)
    co = h._cleanup(exc)
    try:
        co.send(None)
    except StopIteration:
        pass
    loop.run(20)
    for f in futs:
        if not f.done() or f.exception() is None:
            return False
    return h._requests == {} and h._writer is None


OBLIGATIONS = [
    Ob('chan_history', chan_history,
       sym=dict(e0=R(0, 9), e1=R(0, 9), e2=R(0, 9), e3=R(0, 9), e4=R(0, 9), lostexc=B, paused0=B, starting=B),
       shards=dict(nev=[4], e0=list(range(10)), e4=[0], lostexc=[False]),
       thorough_shards=dict(nev=[5], e0=list(range(10)), e1=list(range(10)), lostexc=[True, False]),
       timeout=300, thorough_timeout=900,
       functions=[CH.SSHChannel.close, CH.SSHChannel.abort, CH.SSHChannel.write_eof, CH.SSHChannel._process_eof, CH.SSHChannel._process_close,
                  CH.SSHChannel._close_send, CH.SSHChannel._discard_recv, CH.SSHChannel._flush_recv_buf, CH.SSHChannel._cleanup,
                  CH.SSHChannel.process_connection_close, CH.SSHChannel._make_request, CH.SSHChannel.wait_closed,
                  ST.SSHStreamSession.connection_lost, ST.SSHStreamSession.eof_received, ST.SSHStreamSession.read],
       bounds='4 (thorough 5) events from {data, pause, resume, peer EOF, peer CLOSE, close, abort, write_eof, connection lost, request reply}, reading initially started, paused or not yet started (session requests outstanding)'),
    Ob('open_history', open_history, sym=dict(e0=R(0, 2), e1=R(0, 2), e2=R(0, 2)), timeout=120,
       functions=[CH.SSHChannel._open, CH.SSHChannel.process_open_confirmation, CH.SSHChannel.process_open_failure, CH.SSHChannel._cleanup],
       bounds='3 events from {open confirmation, open failure, connection loss} on a channel being opened'),
    Ob('conn_cleanup', conn_cleanup, sym=dict(how=R(0, 4), nchan=R(0, 2), nlisten=R(0, 2), nglobal=R(0, 2), auth=B, exc=B),
       shards=dict(how=[0, 1, 2, 3, 4]), timeout=200,
       functions=[C.SSHConnection._cleanup, C.SSHConnection._force_close, C.SSHConnection.close, C.SSHConnection.abort,
                  C.SSHConnection.disconnect, C.SSHConnection.connection_lost, C.SSHConnection._process_disconnect,
                  C.SSHConnection.wait_closed],
       bounds='5 ways a connection ends x 0..2 channels, listeners, global-request waiters x pending auth x loss with/without exception; then a second loss notification'),
    Ob('sftp_client_cleanup', sftp_client_cleanup, sym=dict(n=R(0, 3), how=R(0, 2)), timeout=90,
       functions=[S.SFTPClientHandler._cleanup, S.SFTPClientHandler._send_request], bounds='0..3 outstanding SFTP requests, 3 session-end causes'),
]

MANIFEST = dict(
    engines='A',
    technique='bounded symbolic execution (CrossHair/z3) of the real channel/connection/stream/SFTP close paths over symbolic event histories on a FIFO event-loop model',
    text='Bounded symbolic verification of termination: a real channel with a stream session, a pending request, a blocked reader and a wait_closed() '
         'waiter is driven through every history of 4-5 events from {data, pause, resume, peer EOF, peer CLOSE, close, abort, write_eof, connection '
         'lost, request reply}: once both sides have closed or the connection is lost all waiters are done, connection_lost was delivered to the '
         'session exactly once and last, the channel is unregistered; losing the connection afterwards always releases whatever is pending. Channel '
         'open: confirmation / failure / loss in any order resolve the opener once. Connection: five ways of ending close every channel and '
         'listener once, resolve global-request waiters, cancel auth and timers, notify the owner once; SFTP client fails all outstanding requests.',
    note='Real event-loop timing, connect()\'s waiter chain, subprocess/redirect tasks and OS sockets are outside; histories are bounded (4-5 events, one '
         'channel). Trusted: CrossHair, z3, the loop model in vf/stubs.py, recording stubs and oracles in props/C09.py.')
