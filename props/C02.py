"""C02 - Emitted packets conform to RFC 4253 and survive any segmentation"""

import hashlib
import os

from asyncssh import connection as C
from asyncssh import kex as KX
from asyncssh.packet import SSHPacket, UInt32, String, Byte, Boolean, NameList

from vf.core import Ob, R, B
from vf.rt import assume, pick, conc, cb
from vf.stubs import mkconn, MiniLoop
from props.connlib import frame, pframe, instrument, deliver
from props.C11 import Env, FakeKex, _conn as _rekey_conn, _peer_kexinit

ASSUMPTIONS = [
    'the cipher is a model: encrypt_packet returns header||packet and a free MAC b"M"+seq+header+packet truncated to nothing (the wire carries '
    'plaintext plus a tag that names the sequence number it was computed over); real ciphers/MACs are C01',
    'the padding theorem is proved for all payload lengths >= 0 (mathematical integers) for each block size in {8,16,32,64} and header offset in {1,5}',
    'hash functions in key derivation are the real hashlib ones on concrete inputs; only keylen is symbolic',
    'interoperability with a real peer is not run; conformance is judged by an independent RFC 4253 section 6 decoder written in the harness',
]


class MacCipher:
    """free model: tag = b'M' + seq(4) + len(covered)(4): says which sequence number and how many bytes were authenticated"""

    def __init__(self, etm):
        self.etm = etm

    def encrypt_packet(self, seq, hdr, pkt):
        return hdr + pkt, b'M' + seq.to_bytes(4, 'big') + len(hdr + pkt).to_bytes(4, 'big')


def _send_setup(bs, etm, seq):
    conn = mkconn(True)
    wire = []
    conn._send = lambda data: wire.append(bytes(data))
    conn._kex_complete = True
    conn._auth_complete = True
    conn._send_encryption = MacCipher(etm)
    conn._send_blocksize = bs
    conn._send_enchdrlen = 1 if etm else 5
    conn._send_seq = seq
    return conn, wire


def unframe(data, bs, etm):
    """Independent RFC 4253 section 6 decoder (+ 9-byte model tag): returns (payload, seq) or None"""
    if len(data) < 4 + 1 + 4 + 9:
        return None
    n = int.from_bytes(data[:4], 'big')
    if len(data) != 4 + n + 9:
        return None
    pad = data[4]
    if pad < 4 or pad > 255 or n < 1 + pad:
        return None
    aligned = n if etm else 4 + n
    if aligned % bs != 0 or aligned % 8 != 0:
        return None
    if not etm and 4 + n < 16:
        return None
    tag = data[4 + n:]
    if tag[:1] != b'M' or int.from_bytes(tag[5:9], 'big') != 4 + n:
        return None
    return data[5:4 + n - pad], int.from_bytes(tag[1:5], 'big')


def padding_concrete(L: int, bs: int, hdr: int) -> bool:
    """replay twin of the padding kernel: the real send_packet on an L-byte payload"""
    etm = hdr == 1
    conn, wire = _send_setup(bs, etm, 7)
    conn.send_packet(2, bytes(max(L - 1, 0))) if L >= 1 else None
    if L < 1:
        return True
    r = unframe(wire[-1], bs, etm)
    return r is not None and len(r[0]) == L and r[1] == 7


def padding_kernel(job):
    """AST->z3: the statements of SSHConnection.send_packet that compute
    padlen; for ALL payload lengths."""
    import ast
    import z3
    from vf.engine_b import SymExec, Q, mval, get_func_ast, strip_doc
    node = get_func_ast(C.SSHConnection.send_packet)
    stmts = []
    for s in ast.walk(node):
        pass
    for s in strip_doc(node.body):
        names = {n.id for n in ast.walk(s) if isinstance(n, ast.Name) and isinstance(n.ctx, ast.Store)}
        if 'padlen' in names and 'packet' not in names:
            stmts.append(s)
    if len(stmts) < 2:
        return {'status': 'inconclusive', 'reason': 'padlen statements not found in send_packet'}
    L, = z3.Ints('L')
    q = Q(60000)
    vec = 0
    samples = []
    for bs in (8, 16, 32, 64):
        for hdr in (1, 5):
            se = SymExec()
            se.attrs.update(_send_enchdrlen=z3.IntVal(hdr), _send_blocksize=z3.IntVal(bs))
            se.calls['len'] = lambda s_, e, g: L
            se.run(stmts)
            pad = se.env['padlen']
            # translator validation against the real function on concrete lengths
            for cl in (1, 2, 3, 4, 7, 8, 11, 12, 15, 16, 100, 255, 256, 32768):
                f = z3.simplify(z3.substitute(pad, (L, z3.IntVal(cl)))).as_long()
                conn, wire = _send_setup(bs, hdr == 1, 0)
                conn.send_packet(2, bytes(cl - 1))
                real = wire[-1][4]
                vec += 1
                if f != real:
                    return {'status': 'inconclusive', 'reason': 'translator validation failed bs=%d hdr=%d L=%d: %d vs %d' % (bs, hdr, cl, f, real)}
            prop = z3.And(pad >= 4, pad <= 255, (hdr + L + pad) % bs == 0, pad < bs + 4)
            if hdr == 5:
                prop = z3.And(prop, 4 + 1 + L + pad >= 16)
            r, m = q.check(L >= 0, z3.Not(prop))
            if r == 'sat':
                return {'status': 'cex', 'kwargs': {'L': mval(m, L), 'bs': bs, 'hdr': hdr}, 'queries': q.n, 'solver_s': q.t,
                        'reason': 'padding property fails'}
            if r != 'unsat':
                return {'status': 'inconclusive', 'reason': 'solver %s' % r}
            rv, mv = q.check(L >= 0, prop, pad > 4)
            if rv != 'sat':
                return {'status': 'inconclusive', 'reason': 'vacuity witness'}
            samples.append({'bs': bs, 'hdr': hdr, 'L': mval(mv, L), 'padlen': mval(mv, pad)})
    return {'status': 'confirmed', 'queries': q.n, 'solver_s': q.t, 'evaluations': q.n + vec, 'nontrivial': q.n + vec,
            'sample': samples[:3], 'extra': {'statements': [ast.unparse(s) for s in stmts], 'validation_vectors': vec,
                                             'range': 'all payload lengths L >= 0 (LIA), block size in {8,16,32,64}, header offset in {1,5}'}}


def recv_len_concrete(L: int, bs: int, mac: int) -> bool:
    """replay twin of the receive-length kernel: one framed packet of payload length L followed by one extra byte"""
    from props.C10 import _Ident
    conn = mkconn(True)
    out = instrument(conn)
    conn._recv_encryption = _Ident()
    conn._recv_blocksize = bs
    conn._recv_macsize = mac
    conn._auth_complete = conn._kex_complete = True
    conn._recv_handler = conn._recv_pkthdr
    conn._send = lambda data: None
    got = []
    conn._packet_handlers = dict(conn._packet_handlers)
    conn._packet_handlers[2] = lambda self, t, i, p: got.append(p.get_remaining_payload())
    payload = Byte(2) + bytes(max(L - 1, 0))
    deliver(conn, frame(payload, bs) + bytes(mac) + b'X')
    return got == [payload[1:]] and conn._inpbuf == b'X' and not out.closed and not out.internal


def recv_len_kernel(job):
    """AST->z3: the length arithmetic of _recv_pkthdr/_recv_packet against the
    sender's framing, for ALL payload lengths: for a packet framed as RFC 4253
    prescribes (pktlen = 1 + L + pad, 4 + pktlen a multiple of the block size,
    4 <= pad <= 255) the receiver consumes exactly 4 + pktlen + macsize bytes
    (header block + remainder), the MAC slice is exactly the last macsize
    bytes and the payload slice has length L."""
    import ast
    import z3
    from vf.engine_b import SymExec, Q, mval, get_func_ast, strip_doc
    node = get_func_ast(C.SSHConnection._recv_packet)
    rem_stmts = [s for s in strip_doc(node.body) if isinstance(s, ast.Assign) and ast.unparse(s.targets[0]) == 'rem']
    texts = {ast.unparse(s) for s in ast.walk(node) if isinstance(s, (ast.Assign, ast.If))}
    need = ['rest = self._inpbuf[:rem - self._recv_macsize]', 'mac = self._inpbuf[rem - self._recv_macsize:rem]',
            'self._inpbuf = self._inpbuf[rem:]', 'orig_payload = packet_data[1:-packet_data[0]]']
    missing = [t for t in need if t not in texts]
    if len(rem_stmts) != 1 or missing:
        return {'status': 'inconclusive', 'reason': 'receive slicing statements changed: %r' % (missing or 'rem',)}
    hdr = get_func_ast(C.SSHConnection._recv_pkthdr)
    htexts = {ast.unparse(s) for s in ast.walk(hdr) if isinstance(s, ast.Assign)}
    if 'self._packet = self._inpbuf[:self._recv_blocksize]' not in htexts or 'self._inpbuf = self._inpbuf[self._recv_blocksize:]' not in htexts:
        return {'status': 'inconclusive', 'reason': 'header block statements changed'}
    L, pad, mac = z3.Ints('L pad mac')
    q = Q(60000)
    vec = 0
    samples = []
    for bs in (8, 16, 32, 64):
        se = SymExec()
        pktlen = 1 + L + pad
        se.attrs.update(_pktlen=pktlen, _recv_macsize=mac, _recv_blocksize=z3.IntVal(bs))
        se.run(rem_stmts)
        rem = se.env['rem']
        pre = z3.And(L >= 0, pad >= 4, pad <= 255, mac >= 0, mac <= 64, (4 + pktlen) % bs == 0)
        consumed = bs + rem                               # header block + remainder
        rest_len = rem - mac                              # inpbuf[:rem - macsize]
        data_len = (bs - 4) + rest_len                    # packet[4:] + rest
        payload_len = data_len - 1 - pad                  # [1:-pad]
        post = z3.And(rem >= mac, rest_len >= 0, consumed == 4 + pktlen + mac, data_len == pktlen, payload_len == L)
        for cl, cm in ((1, 0), (7, 12), (20, 32), (300, 16)):
            ok = recv_len_concrete(cl, bs, cm)
            vec += 1
            if not ok:
                return {'status': 'cex', 'kwargs': {'L': cl, 'bs': bs, 'mac': cm}, 'reason': 'validation vector', 'queries': q.n}
        r, m = q.check(pre, z3.Not(post))
        if r == 'sat':
            return {'status': 'cex', 'kwargs': {'L': min(mval(m, L), 4096), 'bs': bs, 'mac': mval(m, mac)}, 'queries': q.n, 'solver_s': q.t,
                    'reason': 'receive length arithmetic disagrees with the framing'}
        if r != 'unsat':
            return {'status': 'inconclusive', 'reason': 'solver ' + r}
        rv, mv = q.check(pre, post, L > 20)
        if rv != 'sat':
            return {'status': 'inconclusive', 'reason': 'vacuity witness'}
        samples.append({'bs': bs, 'L': mval(mv, L), 'pad': mval(mv, pad), 'mac': mval(mv, mac)})
    return {'status': 'confirmed', 'queries': q.n, 'solver_s': q.t, 'evaluations': q.n + vec, 'nontrivial': q.n + vec,
            'sample': samples[:2], 'extra': {'validation_vectors': vec, 'range': 'all L >= 0, 4 <= pad <= 255, macsize 0..64, block size in {8,16,32,64}'}}


def send_wire(L: int, bsi: int, etm: bool, seqi: int, t: int) -> bool:
    """send_packet: the emitted bytes decode under the independent RFC 4253
    decoder to exactly the payload, and the tag was computed with the current
    sequence number; the sequence number then advances by one mod 2^32."""
    L = conc(L, 0, 24)
    bs = pick([8, 16], bsi)
    etm = cb(etm)
    seq = pick([0, 1, 0xfffffffe, 0xffffffff], seqi)
    t = pick([2, 94, 20], t)
    conn, wire = _send_setup(bs, etm, seq)
    body = bytes(range(1, L + 1))
    conn.send_packet(t, body)
    pk = [unframe(w, bs, etm) for w in wire]
    if any(p is None for p in pk):
        return False
    if t > 49:
        # an empty IGNORE precedes post-kex packets
        if len(pk) != 2 or pk[0][0][:1] != b'\x02' or pk[0][1] != seq:
            return False
        seq1 = (seq + 1) & 0xffffffff
    else:
        if len(pk) != 1:
            return False
        seq1 = seq
    payload, tagseq = pk[-1]
    return payload == bytes([t]) + body and tagseq == seq1 and conn._send_seq == (seq1 + 1) & 0xffffffff


def _rfc_key(hashname, k, h, x, sid, keylen):
    """RFC 4253 section 7.2, written out independently"""
    H = lambda data: hashlib.new(hashname, data).digest()
    k1 = H(k + h + x + sid)
    blocks = [k1]
    while sum(len(b) for b in blocks) < keylen:
        blocks.append(H(k + h + b''.join(blocks)))
    return b''.join(blocks)[:keylen]


def key_derivation(hi: int, keylen: int, xi: int) -> bool:
    """Kex.compute_key == the RFC 4253 section 7.2 recurrence for every key
    length up to four digest blocks."""
    name = pick(['sha1', 'sha256', 'sha512'], hi)
    dl = hashlib.new(name).digest_size
    keylen = conc(keylen, 0, 4 * 20 + 3)
    assume(keylen <= 3 * dl + 3)
    x = pick([b'A', b'B', b'C', b'D', b'E', b'F'], xi)
    kx = KX.Kex.__new__(KX.Kex)
    kx._hash_alg = getattr(hashlib, name)
    k, h, sid = b'\0\0\0\x03KKK', b'HHHH', b'SIDSID'
    return kx.compute_key(k, h, x, sid, keylen) == _rfc_key(name, k, h, x, sid, keylen)


class _RecKex(FakeKex):
    def process_packet(self, pkttype, seq, packet):
        self.log.append(('kexpkt', pkttype, packet.get_remaining_payload()))
        return True


BM = [(8, 0), (16, 12), (16, 8), (8, 4), (16, 32)]


def segmentation(c1: int, d: int, r1: bool, r2: bool, onebyte: bool, bm: int = 0) -> bool:
    """Receive path under any segmentation: a stream of four packets (IGNORE,
    KEXINIT - handled asynchronously, a kex message, IGNORE) delivered whole,
    cut at any two positions (with or without the loop running in between), or
    byte by byte, yields the same payload sequence, each once, in order, and
    leaves nothing unparsed."""
    r1, r2, onebyte = cb(r1), cb(r2), cb(onebyte)
    loop = MiniLoop()
    log = []
    with Env(loop, log):
        C.get_kex = lambda conn, alg: _RecKex(log)
        conn, out = _rekey_conn(True, loop)
        conn._recv_encryption = conn._recv_encryption
        conn._recv_blocksize, conn._recv_macsize = BM[bm]      # e.g. 16-byte blocks with a 12-byte MAC: the tail of a minimum-size packet is shorter than a block
        conn._kexinit_sent = True
        got = []
        orig = conn._process_ignore

        def rec_ignore(pkttype, pktid, packet):
            got.append(('ignore', packet.get_remaining_payload()))
            return orig(pkttype, pktid, packet)

        conn._packet_handlers = dict(conn._packet_handlers)
        conn._packet_handlers[2] = lambda self, t, i, p: rec_ignore(t, i, p)
        kexinit = Byte(20) + bytes(16) + NameList([b'k1']) + NameList([b'h1']) + NameList([b'e1']) * 2 + \
            NameList([b'm1']) * 2 + NameList([b'none']) * 2 + NameList([]) * 2 + Boolean(False) + UInt32(0)
        stream = pframe(conn, Byte(2) + String(b'one')) + pframe(conn, kexinit) + \
            pframe(conn, Byte(30) + String(b'EEEE')) + pframe(conn, Byte(2) + String(b''))
        n = len(stream)
        if onebyte:
            for i in range(n):
                deliver(conn, stream[i:i + 1])
                if r1 and i % 7 == 0:
                    loop.run(5)
        else:
            c1 = conc(c1, 0, n)
            c2 = min(c1 + d, n)
            deliver(conn, stream[:c1])
            if r1:
                loop.run(50)
            deliver(conn, stream[c1:c2])
            if r2:
                loop.run(50)
            deliver(conn, stream[c2:])
        loop.run(100)
        if out.closed or out.internal or loop.exceptions:
            return False
        seq = got + [x for x in log if isinstance(x, tuple)]
        want_ignores = [('ignore', String(b'one')), ('ignore', String(b''))]
        want_kex = [('kexpkt', 30, String(b'EEEE'))]
        return got == want_ignores and [x for x in log if isinstance(x, tuple)] == want_kex and \
            log.count('kex-start') == 1 and conn._inpbuf == b'' and conn._recv_seq == 4


OBLIGATIONS = [
    Ob('padding_kernel', padding_concrete, engine='B', solver=padding_kernel,
       functions=[C.SSHConnection.send_packet],
       bounds='all payload lengths >= 0; block size in {8,16,32,64}; header offset in {1 (ETM/AEAD), 5}: 4 <= padlen <= 255, alignment, minimum size 16'),
    Ob('recv_len_kernel', recv_len_concrete, engine='B', solver=recv_len_kernel,
       functions=[C.SSHConnection._recv_pkthdr, C.SSHConnection._recv_packet],
       bounds='all payload lengths >= 0, padding 4..255, MAC size 0..64, block size in {8,16,32,64}: bytes consumed, MAC slice and payload slice'),
    Ob('send_wire', send_wire, sym=dict(L=R(0, 24), bsi=R(0, 1), etm=B, seqi=R(0, 3), t=R(0, 2)),
       shards=dict(bsi=[0, 1], etm=[True, False]), timeout=150,
       functions=[C.SSHConnection.send_packet],
       bounds='payload 0..24 bytes, block size 8/16, ETM or not, send_seq in {0,1,2^32-2,2^32-1}, types IGNORE/CHANNEL_DATA/KEXINIT'),
    Ob('key_derivation', key_derivation, sym=dict(keylen=R(0, 83), xi=R(0, 5)), shards=dict(hi=[0, 1, 2]), timeout=150,
       functions=[KX.Kex.compute_key],
       bounds='sha1/sha256/sha512, letters A-F, key length 0..3 digests+3 (capped at 83 bytes)'),
    Ob('segmentation', segmentation, sym=dict(c1=R(0, 260), r1=B, r2=B),
       shards=dict(onebyte=[False], d=[0, 5], r1=[True, False], r2=[True], bm=[0, 1]),
       thorough_shards=dict(onebyte=[False, True], d=[0, 1, 5, 9, 17, 40], r1=[True, False], r2=[True, False], bm=[0, 1, 2, 4]),
       timeout=250, thorough_timeout=900,
       functions=[C.SSHConnection._recv_data, C.SSHConnection._recv_pkthdr, C.SSHConnection._recv_packet,
                  C.SSHConnection._finish_recv_packet, C.SSHConnection._process_kexinit],
       bounds='4-packet stream (~190 bytes, one packet handled by an async handler, the last of minimum size) under (block size, MAC size) in {(8,0),(16,12)} (thorough 5 pairs), cut at any position c and at c+d (d in {0,5}; thorough 12 values of d), loop running or not between chunks; 1-byte chunks in thorough'),
]

MANIFEST = dict(
    engines='AB',
    technique='AST->z3 proof of the packet padding arithmetic for all payload lengths + bounded symbolic execution (CrossHair/z3) of send_packet against an independent RFC 4253 decoder, of key derivation against the RFC recurrence, and of the receive state machine under symbolic segmentation',
    text='Padding: the padlen statements of the real send_packet are translated to z3 and proved for every payload length (4 <= padlen <= 255, block '
         'alignment with the 5- or 1-byte header offset, minimum packet size) for block sizes 8/16/32/64. Wire format: emitted bytes of the real '
         'send_packet decode under an independently written RFC 4253 section 6 decoder to exactly the payload with the tag computed over the current '
         'sequence number (incl. 2^32 wrap). Key derivation: compute_key equals the RFC 4253 section 7.2 recurrence up to four digest blocks. '
         'Segmentation: a four-packet stream including an asynchronously handled KEXINIT, cut at any two byte positions with any scheduling of the '
         'handler task, is delivered once, in order, with nothing left unparsed.',
    note='Real ciphers/MACs (C01), exchange-hash layout and letters A-F (C03/C11) are covered elsewhere; interop with a live peer is not run. '
         'Trusted: z3, vf/engine_b.py (validated against the real function on concrete lengths each run), CrossHair, the reference decoder/recurrence in props/C02.py.')
