"""C10 - Hostile input costs bounded work and fails cleanly"""

import asyncio

from asyncssh import asn1 as A
from asyncssh import channel as CH
from asyncssh import connection as C
from asyncssh import public_key as PK
from asyncssh.misc import DisconnectError, ProtocolError
from asyncssh.packet import SSHPacket, PacketDecodeError, UInt32, String, Byte, Boolean, MPInt

from vf.core import Ob, R, B, By
from vf.rt import Fuel, assume, pick, conc, notrace, cb
from vf.stubs import mkconn, MiniLoop, AsyncioShim, NullLogger
from props.chanlib import RecSession, split_sent
from props.connlib import frame, instrument, deliver

ASSUMPTIONS = [
    'connections are built by the real __init__ with a permissive options stub; transport records writes; the event loop is the FIFO MiniLoop',
    'an identity cipher stands in for the negotiated cipher (hostile *plaintext* payloads are the subject; tampering with ciphertext is C01)',
    'work is measured in ghost fuel: packets sent and loop iterations per input chunk, not wall-clock time',
    'byte strings are symbolic with fixed small lengths (sharded); longer inputs are outside the claim',
]

EXTREME = [0, 1, 2, 0x7fffffff, 0xffffffff]


class _Ident:
    def decrypt_header(self, seq, p, n):
        return p, p[:n]

    def decrypt_packet(self, seq, first, rest, n, mac):
        return first[n:] + rest

    def encrypt_packet(self, seq, hdr, pkt):
        return hdr + pkt, b''


def _postauth(server, loop=None):
    loop = loop or MiniLoop()
    conn = mkconn(server, loop=loop)
    out = instrument(conn)
    conn._recv_encryption = _Ident()
    conn._auth_complete = True
    conn._kex_complete = True
    conn._recv_handler = conn._recv_pkthdr

    class _Owner:                      # the application object: accepts every notification, refuses every request
        def __getattr__(self, name):
            if name.startswith('__'):
                raise AttributeError(name)
            return lambda *a, **k: None

    conn._owner = _Owner()
    sends = []
    orig_send = conn._send

    def _send(data):
        sends.append(len(data))
        if len(sends) > 64:
            raise Fuel()

    conn._send = _send
    out.sends = sends
    return conn, out, loop


def open_params(server: bool, wi: int, pi: int, dropbear: bool, comp: bool, n: int) -> bool:
    """Peer-chosen channel parameters at open / open-confirmation: for window
    and maximum packet size in {0, 1, 2, 2^31-1, 2^32-1} the endpoint either
    refuses (protocol error / open failure) or ends with a channel whose
    _send_pktsize >= 1 (the invariant C08's sender relies on); writing n bytes
    afterwards terminates within n+2 packets (no spin on a zero packet size)."""
    window = pick(EXTREME, wi)
    pktsize = pick(EXTREME, pi)
    loop = MiniLoop()
    conn, out, loop = _postauth(server, loop)
    saved = C.asyncio
    C.asyncio = AsyncioShim(loop)
    try:
        if dropbear:
            if server:
                conn._client_version = b'SSH-2.0-dropbear_2020.81'
            else:
                conn._server_version = b'SSH-2.0-dropbear_2020.81'
        if comp:
            class Comp:
                def compress(self, data):
                    return data
            conn._compressor = Comp()
        sess = RecSession()
        if server:
            chan = CH.SSHChannel(conn, loop, None, 'strict', 16, 8)
            chan._logger = NullLogger()
            conn._process_x_open = lambda packet: (chan, sess)
            body = String(b'x') + UInt32(3) + UInt32(window) + UInt32(pktsize)
            deliver(conn, frame(Byte(90) + body))
        else:
            chan = CH.SSHChannel(conn, loop, None, 'strict', 16, 8)
            chan._logger = NullLogger()
            chan._session = sess
            chan._open_waiter = loop.create_future()
            body = UInt32(chan._recv_chan) + UInt32(3) + UInt32(window) + UInt32(pktsize)
            deliver(conn, frame(Byte(91) + body))
        loop.run(50)
        if out.internal or loop.exceptions:
            return False
        if out.closed:
            return isinstance(out.closed[0], DisconnectError)
        if chan._send_state != 'open':
            return True                        # open refused
        if chan._send_pktsize < 1:
            return False                       # invariant broken: sender would spin or misbehave
        before = len(out.sends)
        chan._session = sess
        chan.write(b'abc'[:n])
        loop.run(50)
        return len(out.sends) - before <= 2 * (n + 2) and not out.internal and not loop.exceptions
    finally:
        C.asyncio = saved


HANDLED = [1, 2, 3, 4, 5, 6, 7, 21, 51, 52, 53, 80, 81, 82, 90, 91, 92]
GROUPS = [[1, 2, 3, 4, 0], [5, 6, 7, 21, 8], [51, 52, 53, 60, 49], [80, 81, 82, 255], [90, 91, 92, 30, 50]]
CGROUPS = [[93, 94], [95, 96], [97, 98], [99, 100, 101]]


def conn_payload(server: bool, grp: int, ti: int, body: bytes, extinfo: bool) -> bool:
    """Any byte string as the payload of any connection-level message type
    after authentication: handling the chunk finishes, at most one close is
    requested, nothing escapes to the loop, and a bounded number of packets is
    written in response."""
    pkttype = pick(GROUPS[grp], ti)
    loop = MiniLoop()
    conn, out, loop = _postauth(server, loop)
    conn._can_recv_ext_info = extinfo
    saved = C.asyncio
    C.asyncio = AsyncioShim(loop)
    try:
        deliver(conn, frame(bytes([pkttype]) + body))
        loop.run(50)
    finally:
        C.asyncio = saved
    if loop.exceptions:
        return False                 # exception escaped to the event loop
    if len(out.closed) + out.internal > 1:
        return False
    if out.internal:
        return False                 # undocumented exception type from a handler
    if out.closed and not isinstance(out.closed[0], DisconnectError):
        # a peer DISCONNECT with reason 'by application' closes cleanly (no exception)
        if not (pkttype == 1 and out.closed[0] is None):
            return False
    return len(out.sends) <= 4


def chan_payload(server: bool, grp: int, ti: int, body: bytes) -> bool:
    """Any byte string as the payload (after the recipient number) of any
    channel message type on an open session channel."""
    pkttype = pick(CGROUPS[grp], ti)
    loop = MiniLoop()
    conn, out, loop = _postauth(server, loop)
    saved = C.asyncio
    C.asyncio = AsyncioShim(loop)
    try:
        sess = RecSession()
        if server:
            chan = CH.SSHServerChannel(conn, loop, True, False, True, 10, 1024, None, 'strict', 64, 32)
        else:
            chan = CH.SSHClientChannel(conn, loop, 'strict', None, 'strict', 64, 32)
        chan._logger = NullLogger()
        chan._session = sess
        chan._send_chan = 7
        chan._send_state = chan._recv_state = 'open'
        chan._send_window = 64
        chan._send_pktsize = 32
        chan._recv_paused = False
        deliver(conn, frame(bytes([pkttype]) + UInt32(chan._recv_chan) + body))
        loop.run(50)
    finally:
        C.asyncio = saved
    if loop.exceptions or out.internal or len(out.closed) > 1:
        return False
    if out.closed and not isinstance(out.closed[0], DisconnectError):
        return False
    return len(out.sends) <= 6


def packet_getters(data: bytes, op: int) -> bool:
    """SSHPacket getters on arbitrary bytes: a value or PacketDecodeError, the
    cursor never passes the end, consumed + remaining == the packet."""
    p = SSHPacket(data)
    ops = ['get_byte', 'get_boolean', 'get_uint32', 'get_uint64', 'get_string', 'get_mpint', 'get_namelist', 'get_uint16']
    name = pick(ops, op)
    try:
        getattr(p, name)()
        getattr(p, name)()
    except PacketDecodeError:
        pass
    return 0 <= p._idx <= len(data) and p.get_consumed_payload() + p.get_remaining_payload() == data


DER_IDS = [0x00, 0x01, 0x02, 0x03, 0x04, 0x05, 0x06, 0x0c, 0x10, 0x11, 0x16, 0x1f,
           0x21, 0x23, 0x24, 0x30, 0x31, 0x36, 0x3f, 0x41, 0x80, 0xa0, 0xa3, 0xdf, 0xff]


GREQ = [b'tcpip-forward', b'cancel-tcpip-forward', b'streamlocal-forward@openssh.com', b'cancel-streamlocal-forward@openssh.com',
        b'hostkeys-prove-00@openssh.com', b'keepalive@openssh.com', b'hostkeys-00@openssh.com', b'no-such-request@example.com']


def global_requests(server: bool, ri: int, want_reply: bool, nkeys: int, body: bytes) -> bool:
    """Any byte string as the request-specific data of every global request
    the role implements (and an unknown one), optionally after 0..1 well-formed
    entries: handling finishes within a bounded number of packet-field reads
    and loop steps, nothing escapes to the loop, at most one close, a bounded
    number of packets in response (exactly one reply when want_reply is set and
    the connection stays up)."""
    name = GREQ[ri]
    loop = MiniLoop()
    conn, out, loop = _postauth(server, loop)
    if not server:
        conn._server_host_keys_handler = lambda added, removed, retained, revoked: None
        conn._trusted_host_keys = set()
        conn._revoked_host_keys = set()
    else:
        conn._server_host_keys = {}
    reads = [0]
    orig = SSHPacket.get_bytes

    def counted(self, size):
        reads[0] += 1
        if reads[0] > 200:
            raise Fuel()
        return orig(self, size)

    saved = C.asyncio
    C.asyncio = AsyncioShim(loop)
    SSHPacket.get_bytes = counted
    prefix = b''
    if nkeys:
        prefix = String(String('ssh-bogus') + String(b'k')) if name.startswith(b'hostkeys') else String('h') + UInt32(1)
    try:
        try:
            deliver(conn, frame(Byte(80) + String(name) + Boolean(want_reply) + prefix + body))
            loop.run(60)
        except Fuel:
            return False
    finally:
        C.asyncio = saved
        SSHPacket.get_bytes = orig
    if loop.exceptions:
        return False
    if reads[0] > 200:
        return False                 # the work bound was exceeded (also when the Fuel exception was swallowed by a reaper)
    # a decode error inside the asynchronous part of a handler is reaped into one close of this connection, reported to the owner
    if len(out.closed) + out.internal > 1:
        return False
    if out.closed and not isinstance(out.closed[0], DisconnectError):
        return False
    if len(out.sends) > 4:
        return False
    if loop.pending():
        return False                 # a task still runnable after 60 steps: unbounded work
    return True


class HdrBytes:
    """bytes-like view of (concrete header octets) + (symbolic content): the
    operations der_decode_partial uses (len, index, slice, iteration) behave
    exactly as on bytes, but header octets stay concrete for the engine."""

    def __init__(self, head, tail):
        self.head, self.tail = list(head), tail

    def __len__(self):
        return len(self.head) + len(self.tail)

    def __getitem__(self, i):
        h = len(self.head)
        if isinstance(i, slice):
            start, stop, step = i.start, i.stop, i.step
            n = len(self)
            if step is not None:
                raise TypeError('step')
            start = 0 if start is None else start
            stop = n if stop is None else min(stop, n)
            if start < 0 or stop < 0:
                raise TypeError('negative slice')
            if start >= h:
                return self.tail[start - h:max(stop - h, 0)]
            if stop <= h:
                return bytes(self.head[start:stop])
            return HdrBytes(self.head[start:], self.tail[:stop - h])
        if i < 0:
            i += len(self)
        if i < h:
            return self.head[i]
        return self.tail[i - h]

    def __iter__(self):
        for i in range(len(self)):
            yield self[i]


def der_bytes(idi: int, leni: int, content: bytes) -> bool:
    """der_decode on identifier x length octet x arbitrary content octets: a
    value or ASN1DecodeError - no other exception type."""
    ident = pick(DER_IDS, idi)
    n = len(content)
    lenb = pick([n, n + 1, 0, 0x80, 0x81, 0xff], leni)
    if n > 0 and lenb == 0x81:
        # long-form length: first content octet is the length
        data = HdrBytes([ident, lenb, n - 1], content[1:])
    else:
        data = HdrBytes([ident, lenb], content)
    try:
        A.der_decode(data)
    except A.ASN1DecodeError:
        pass
    return True


def der_depth(kind: int, di: int, inner: int) -> bool:
    """der_decode on deeply nested constructed values (SEQUENCE, SET, explicit
    context tag) of depth 1 / 50 / 400 / 3000 around a small inner value: a
    value or ASN1DecodeError - in particular not RecursionError."""
    ident = pick([0x30, 0x31, 0xa0], kind)
    depth = pick([1, 50, 400, 3000], di)
    data = pick([b'', b'\x05\x00', b'\x02\x01\x07', b'\x04\x01'], inner)
    with notrace():
        for _ in range(depth):
            n = len(data)
            if n < 128:
                ln = bytes([n])
            else:
                nb = (n.bit_length() + 7) // 8
                ln = bytes([0x80 | nb]) + n.to_bytes(nb, 'big')
            data = bytes([ident]) + ln + data
        try:
            A.der_decode(data)
        except A.ASN1DecodeError:
            pass
        except RecursionError:
            return False
    return True


def recv_lengths(pktlen: int, buflen: int, macsize: int, blocksize: int) -> bool:
    """Receive loop on a buffer whose length field is arbitrary (0..2^32-1):
    handling the chunk terminates in a bounded number of handler steps and
    either waits for more bytes, delivers, or closes once."""
    blocksize = pick([8, 16], blocksize)
    macsize = pick([0, 12, 32], macsize)
    buflen = conc(buflen, 0, 40)
    conn, out, loop = _postauth(True)
    conn._recv_blocksize = blocksize
    conn._recv_macsize = macsize
    steps = []
    for name in ('_recv_pkthdr', '_recv_packet'):
        orig = getattr(conn, name)

        def wrap(orig=orig):
            steps.append(1)
            if len(steps) > 2 * (buflen // blocksize) + 4:
                raise Fuel()
            return orig()
        setattr(conn, name, wrap)
    conn._recv_handler = conn._recv_pkthdr
    got = []
    conn.process_packet = lambda t, s, p: (got.append(t), True)[1]
    buf = (UInt32(pktlen) + bytes(range(4, 60)))[:buflen]
    deliver(conn, buf)
    if out.internal and isinstance(out.closed, list) and False:
        return False
    return len(out.closed) + out.internal <= 1 and not loop.exceptions


def reap(kind: int) -> bool:
    """A task that fails with any exception is reaped into a connection close;
    nothing is re-raised into the loop."""
    conn, out, loop = _postauth(True)

    async def job():
        k = kind
        if k == 0:
            raise ProtocolError('x')
        if k == 1:
            raise ValueError('x')
        if k == 2:
            raise asyncio.CancelledError()
        if k == 3:
            raise KeyError('x')
        return None

    saved = C.asyncio
    C.asyncio = AsyncioShim(loop)
    try:
        conn.create_task(job())
        loop.run(20)
    finally:
        C.asyncio = saved
    if loop.exceptions or conn._tasks:
        return False
    if kind == 0:
        return len(out.closed) == 1 and isinstance(out.closed[0], ProtocolError)
    if kind in (1, 3):
        return out.internal == 1
    return not out.closed and not out.internal


def open_task_error(kind: int, susp: bool) -> bool:
    """Incoming channel open whose asynchronous part fails: ChannelOpenError
    becomes an open-failure reply, any other exception is reaped into a
    connection close; nothing is left for the event loop's exception handler."""
    from asyncssh.misc import ChannelOpenError
    from vf.stubs import Suspend
    loop = MiniLoop()
    conn, out, loop = _postauth(True, loop)
    saved = C.asyncio
    C.asyncio = AsyncioShim(loop)
    try:
        chan = CH.SSHChannel(conn, loop, None, 'strict', 16, 8)
        chan._logger = NullLogger()

        async def factory():
            if susp:
                await Suspend()
            k = kind
            if k == 0:
                raise ChannelOpenError(2, 'no')
            if k == 1:
                raise OverflowError('port')
            if k == 2:
                raise ValueError('x')
            return RecSession()

        conn._process_x_open = lambda packet: (chan, factory())
        body = String(b'x') + UInt32(3) + UInt32(16) + UInt32(8)
        deliver(conn, frame(Byte(90) + body))
        loop.run(50)
    finally:
        C.asyncio = saved
    if loop.exceptions or loop.unretrieved() or loop.pending():
        return False
    if kind == 0:
        return not out.closed and not out.internal and chan._recv_chan is None
    if kind in (1, 2):
        return out.internal == 1
    return not out.closed and not out.internal and chan._send_state == 'open'


class FuelBytes(bytes):
    """bytes whose find() burns ghost fuel: the text parsers call it once per
    line, so a parser that stops advancing is caught as Fuel exhaustion"""
    fuel = 0

    def find(self, *a):
        FuelBytes.fuel -= 1
        if FuelBytes.fuel < 0:
            raise Fuel()
        return bytes.find(self, *a)


LINES = [b'Comment: abc\\\n', b'Comment: "x"\n', b'Subject: y\n', b'AAAA\n', b'\n', b'x: \\',
         b'---- END SSH2 PUBLIC KEY ----\n', b'AAAAB3NzaC1yc2E=', b'Proc-Type: 4,ENCRYPTED\n', b'DEK-Info: a,b\n']


def text_parsers(which: int, n: int, i0: int, i1: int, i2: int, i3: int) -> bool:
    """RFC 4716 / PEM header parsers on any sequence of up to 4 lines from a
    line alphabet (continuation markers, headers, blank, base64, no final
    newline): return or KeyImportError, within 2 find() calls per line."""
    idx = [i0, i1, i2, i3]
    parts = []
    for k in range(4):
        if k < n:
            parts.append(pick(LINES, idx[k]))
    data = FuelBytes(b''.join(parts))
    FuelBytes.fuel = 2 * len(parts) + 4
    try:
        if which == 0:
            PK._parse_rfc4716(data)
        else:
            PK._parse_pem(data)
    except PK.KeyImportError:
        pass
    return True


def banner_limits(server: bool, nlines: int, linelen: int, verlen: int, nl: bool) -> bool:
    """Pre-version input: any number of banner lines, any line length, any
    version length, newline present or not - handling one chunk takes at most
    one handler step per line, the documented limits (8192-byte lines, 1024
    banner lines, 255-byte version) end the connection once, a server accepts
    no banner, and nothing raises."""
    n = pick([0, 1, 3, 1023, 1024, 1025, 1030], nlines)
    ll = pick([0, 1, 80, 8190, 8191, 8192, 9000], linelen)
    vl = pick([0, 1, 200, 246, 247, 248, 300], verlen)
    nl = cb(nl)
    with notrace():
        conn = mkconn(server)
        out = instrument(conn)
        conn._send = lambda data: None
        started = []
        conn._send_kexinit = lambda: started.append(1)
        steps = []
        orig = conn._recv_version

        def counted():
            steps.append(1)
            if len(steps) > n + 4:
                raise Fuel()
            return orig()

        conn._recv_handler = counted
        data = (b'x' * ll + b'\r\n') * n + b'SSH-2.0-' + b'v' * vl + (b'\r\n' if nl else b'')
        try:
            deliver(conn, data)
        except Fuel:
            return False
    if out.internal or len(out.closed) > 1:
        return False
    too_long_line = n > 0 and ll + 1 >= 8192
    if server and n > 0:
        # a server accepts no banner before the version: first line is not a version -> closed
        return len(out.closed) == 1 and not started
    if too_long_line or n > 1024:
        return len(out.closed) == 1 and not started
    if not nl:
        # incomplete version line: wait for more unless it is already too long
        return not started and (len(out.closed) == 1) == (8 + vl >= 8192)
    if 8 + vl > 255:
        return len(out.closed) == 1
    return not out.closed and started == [1]


ATTR_FLAGS = [0, 0x1, 0x2, 0x4, 0x8, 0x10, 0x20, 0x28, 0x40, 0x80, 0x100, 0x200, 0x400, 0x1000, 0x2000, 0x8000,
              0x80000000, 0x8000000d, 0x1fd, 0xffffffff]


def sftp_attrs_bytes(version: int, fi: int, tail: bytes) -> bool:
    """SFTPAttrs.decode / SFTPName.decode on a flag word followed by arbitrary
    bytes: a value, or SFTPError / PacketDecodeError (which the packet loops
    turn into a status reply) - nothing else."""
    from asyncssh import sftp as S
    flags = pick(ATTR_FLAGS, fi)
    data = HdrBytes(list(flags.to_bytes(4, 'big')), tail)
    try:
        S.SFTPAttrs.decode(SSHPacket(data), version)
    except (S.SFTPError, PacketDecodeError):
        pass
    return True


def sftp_copy_data(flen: int, ro: int, length: int, wo: int, same: bool) -> bool:
    flen, ro, length, wo, same = conc(flen, 0, 5), conc(ro, 0, 5), conc(length, 0, 5), conc(wo, 0, 6), cb(same)
    with notrace():      # arguments are concrete from here: the handler runs natively on each solver-chosen combination
        return _sftp_copy_data(flen, ro, length, wo, same)


def _sftp_copy_data(flen, ro, length, wo, same):
    """SFTP server "copy-data" extension with arbitrary offsets/length, between
    two handles or within one: the request finishes within a number of block
    reads proportional to the file (never feeding on its own output), and for
    distinct files the destination range equals the source range."""
    from asyncssh import sftp as S
    from uuid import uuid4
    class File(bytearray):
        def __bool__(self):              # an open file object is truthy whatever its length
            return True

    src_file = File(b'ABCDEF'[:flen])
    dst_file = src_file if same else File(b'......')
    reads = [0]

    class Srv:
        def read(self, f, offset, size):
            reads[0] += 1
            if reads[0] > 12:
                raise Fuel()
            return bytes(f[offset:offset + size])

        def write(self, f, offset, data):
            if offset > len(f):
                f.extend(bytes(offset - len(f)))
            f[offset:offset + len(data)] = data
            return len(data)

    h = S.SFTPServerHandler.__new__(S.SFTPServerHandler)
    h._server = Srv()
    h._logger = NullLogger()
    h._file_handles = {b'h1': src_file, b'h2': dst_file}
    before = bytes(src_file)
    saved = S._COPY_DATA_BLOCK_SIZE
    S._COPY_DATA_BLOCK_SIZE = 2
    from asyncssh.packet import UInt64
    pkt = SSHPacket(String(b'h1') + UInt64(ro) + UInt64(length) + String(b'h1' if same else b'h2') + UInt64(wo))
    try:
        coro = h._process_copy_data(pkt)
        try:
            coro.send(None)
        except StopIteration:
            res = 'ok'
        except Fuel:
            return False                # unbounded work: the copy reads what it has just written
        except S.SFTPError:
            res = 'err'
        else:
            return False
    finally:
        S._COPY_DATA_BLOCK_SIZE = saved
    if same:
        return True                     # (overlapping in-place copies: only termination is claimed)
    if res != 'ok':
        return False
    n = len(before[ro:]) if length == 0 else len(before[ro:ro + length])
    return bytes(dst_file[wo:wo + n]) == before[ro:ro + n] and bytes(src_file) == before


def rsa_blob(e: int, n: int) -> bool:
    """A well-framed ssh-rsa public key blob with arbitrary small parameters is
    a key or KeyImportError - nothing else (one bad line must not abort a whole
    known_hosts / authorized_keys load)."""
    e = conc(e, -2, 6)
    n = conc(n, -2, 20)
    blob = String(b'ssh-rsa') + MPInt(e) + MPInt(n)
    try:
        PK.decode_ssh_public_key(blob)
    except PK.KeyImportError:
        pass
    return True


def key_line(e: int, n: int) -> bool:
    import binascii
    e = conc(e, -2, 6)
    n = conc(n, -2, 20)
    blob = String(b'ssh-rsa') + MPInt(e) + MPInt(n)
    with notrace():
        line = b'ssh-rsa ' + binascii.b2a_base64(blob)[:-1] + b' c\n'
    try:
        PK.import_public_key(line)
    except PK.KeyImportError:
        pass
    return True


OBLIGATIONS = [
    Ob('open_params', open_params,
       sym=dict(wi=R(0, 4), dropbear=B, comp=B),
       shards=dict(server=[True, False], pi=[0, 1, 2, 4], n=[2]),
       thorough_shards=dict(server=[True, False], pi=[0, 1, 2, 3, 4], n=[0, 1, 3]),
       timeout=120, thorough_timeout=300,
       functions=[C.SSHConnection._process_channel_open, C.SSHConnection._process_channel_open_confirmation,
                  CH.SSHChannel.process_open, CH.SSHChannel.process_open_confirmation,
                  CH.SSHChannel._finish_open_request, CH.SSHChannel.write, CH.SSHChannel._flush_send_buf],
       bounds='window, max packet size in {0,1,2,2^31-1,2^32-1}; dropbear work-around on/off; then one write of 0..3 bytes'),
    Ob('conn_payload', conn_payload,
       sym=dict(extinfo=B, ti=R(0, 4)),
       shards=dict(server=[True, False], grp=[0, 1, 2, 3, 4], L=[0, 4]),
       thorough_shards=dict(server=[True, False], grp=[0, 1, 2, 3, 4], L=[0, 1, 4, 5, 8, 9, 13]),
       timeout=150, thorough_timeout=600,
       functions=[C.SSHConnection._recv_data, C.SSHConnection._recv_packet] +
                 [v for k, v in sorted(C.SSHConnection._packet_handlers.items())],
       bounds='post-auth state, both roles; every connection-level message type in the handler table plus unknown ones; body = arbitrary bytes of length L in {0,1,4,5} (thorough up to 13)'),
    Ob('global_requests', global_requests,
       sym=dict(want_reply=B, nkeys=R(0, 1)),
       shards=dict(server=[True, False], ri=list(range(len(GREQ))), L=[0, 1, 4, 5]),
       thorough_shards=dict(server=[True, False], ri=list(range(len(GREQ))), L=[0, 1, 3, 4, 5, 8, 9]),
       timeout=150, thorough_timeout=600,
       functions=[C.SSHConnection._process_global_request, C.SSHConnection._service_next_global_request,
                  C.SSHClientConnection._finish_hostkeys, C.SSHServerConnection._process_tcpip_forward_global_request,
                  C.SSHServerConnection._process_cancel_tcpip_forward_global_request,
                  C.SSHServerConnection._process_streamlocal_forward_at_openssh_dot_com_global_request,
                  C.SSHServerConnection._process_cancel_streamlocal_forward_at_openssh_dot_com_global_request,
                  C.SSHServerConnection._process_hostkeys_prove_00_at_openssh_dot_com_global_request,
                  C.SSHConnection._process_keepalive_at_openssh_dot_com_global_request],
       bounds='both roles x 7 implemented global request names + 1 unknown x want_reply x 0..1 well-formed leading entry x request data = arbitrary bytes of length L in {0,1,4,5} (thorough up to 9); '
              'work bound: 200 packet-field reads, 60 loop steps, 4 packets written'),
    Ob('chan_payload', chan_payload,
       sym=dict(ti=R(0, 2)),
       shards=dict(server=[True, False], grp=[0, 1, 2, 3], L=[0, 4]),
       thorough_shards=dict(server=[True, False], grp=[0, 1, 2, 3], L=[0, 1, 4, 5, 8, 9, 12]),
       timeout=150, thorough_timeout=600,
       functions=[C.SSHConnection._recv_packet] + [v for k, v in sorted(CH.SSHChannel._packet_handlers.items())],
       bounds='open session channel, both roles; channel message types 93..100; body after recipient = arbitrary bytes of length L'),
    Ob('packet_getters', packet_getters,
       sym=dict(op=R(0, 7)), shards=dict(L=[0, 3, 5]), thorough_shards=dict(L=[0, 1, 3, 4, 5, 8, 9, 12]),
       timeout=90, thorough_timeout=300,
       functions=[SSHPacket.get_bytes, SSHPacket.get_string, SSHPacket.get_mpint, SSHPacket.get_namelist, SSHPacket.get_uint32],
       bounds='arbitrary bytes of length L in {0,3,5,9}; each getter applied twice'),
    Ob('der_bytes', der_bytes,
       sym=dict(idi=R(0, 24)),
       shards=dict(L=[0, 1], leni=[0, 1, 2, 3, 4, 5]),
       thorough_shards=dict(L=[0, 1, 2], leni=[0, 1, 2, 3, 4, 5], idi=list(range(len(DER_IDS)))),
       timeout=120, thorough_timeout=600,
       functions=[A.der_decode, A.der_decode_partial, A.BitString.decode, A.ObjectIdentifier.decode],
       bounds='identifier octet from 25 representatives (all universal classes incl. constructed/high-tag forms), length octet from 6 forms, content = arbitrary bytes of length 0..1 (thorough 0..2, identifier sharded)'),
    Ob('der_depth', der_depth, sym=dict(kind=R(0, 2), di=R(0, 3), inner=R(0, 3)), timeout=120,
       functions=[A.der_decode, A.der_decode_partial],
       bounds='SEQUENCE / SET / [0] nested 1, 50, 400 or 3000 deep around {nothing, NULL, INTEGER 7, truncated OCTET STRING}'),
    Ob('recv_lengths', recv_lengths,
       sym=dict(pktlen=R(0, 0xffffffff), buflen=R(0, 40), macsize=R(0, 2), blocksize=R(0, 1)),
       shards=dict(blocksize=[0, 1], macsize=[0, 1, 2]),
       timeout=120, thorough_timeout=400,
       functions=[C.SSHConnection._recv_data, C.SSHConnection._recv_pkthdr, C.SSHConnection._recv_packet],
       bounds='length field any uint32; buffer 0..40 bytes; block size 8/16; MAC size 0/12/32'),
    Ob('reap', reap, sym=dict(kind=R(0, 4)), timeout=60,
       functions=[C.SSHConnection._reap_task, C.SSHConnection.create_task],
       bounds='task raising DisconnectError / ValueError / CancelledError / KeyError / returning'),
    Ob('open_task_error', open_task_error, sym=dict(kind=R(0, 3), susp=B), timeout=90,
       functions=[CH.SSHChannel.process_open, CH.SSHChannel._finish_open_request, C.SSHConnection.create_task,
                  C.SSHConnection._reap_task],
       bounds='session factory awaitable raising ChannelOpenError / OverflowError / ValueError / succeeding, suspending once or not'),
    Ob('text_parsers', text_parsers,
       sym=dict(i0=R(0, 9), i1=R(0, 9), i2=R(0, 9), i3=R(0, 9)),
       shards=dict(which=[0, 1], n=[1, 2, 3]), fixed=dict(),
       thorough_shards=dict(which=[0, 1], n=[1, 2, 3, 4], i0=list(range(10))), timeout=150, thorough_timeout=600,
       functions=[PK._parse_rfc4716, PK._parse_pem],
       bounds='up to 3 (thorough 4) lines from a 10-line alphabet (continuations, headers, blank, base64, END marker, missing final newline)'),
    Ob('banner_limits', banner_limits, sym=dict(nlines=R(0, 6), linelen=R(0, 6), verlen=R(0, 6), nl=B),
       shards=dict(server=[True, False]), timeout=200,
       functions=[C.SSHConnection._recv_version, C.SSHConnection._recv_data],
       bounds='banner line count in {0,1,3,1023,1024,1025,1030} x line length in {0,1,80,8190,8191,8192,9000} x version payload length in {0,1,200,246,247,248,300} x newline present or not x role'),
    Ob('sftp_attrs_bytes', sftp_attrs_bytes, sym=dict(fi=R(0, 19)),
       shards=dict(version=[4, 6], L=[0, 4]), thorough_shards=dict(version=[3, 4, 5, 6], L=[0, 1, 4, 8, 9], fi=list(range(20))),
       timeout=300, thorough_timeout=600,
       functions=['asyncssh.sftp.SFTPAttrs.decode'],
       bounds='20 attribute flag words (single bits, combinations, all ones) followed by arbitrary bytes of length {0,4} (thorough up to 9, flag word sharded), versions 4/6 (thorough 3..6)'),
    Ob('sftp_copy_data', sftp_copy_data, sym=dict(flen=R(0, 5), ro=R(0, 5), length=R(0, 5), wo=R(0, 6), same=B),
       shards=dict(same=[False, True]), timeout=200,
       functions=['asyncssh.sftp.SFTPServerHandler._process_copy_data'],
       bounds='file of 0..5 bytes, block size 2, read offset / length 0..5, write offset 0..6, same or distinct handles; work bound 12 block reads'),
    Ob('rsa_blob', rsa_blob, sym=dict(e=R(-2, 6), n=R(-2, 20)), timeout=120,
       functions=[PK.decode_ssh_public_key], bounds='ssh-rsa blob, e in -2..6, n in -2..20'),
    Ob('key_line', key_line, sym=dict(e=R(-2, 6), n=R(-2, 20)), timeout=120,
       functions=[PK.import_public_key], bounds='OpenSSH public key line, ssh-rsa, e in -2..6, n in -2..20'),
]

# symbolic byte-string parameters whose length is the shard value L
for _o in OBLIGATIONS:
    if _o.name in ('conn_payload', 'chan_payload', 'global_requests', 'packet_getters', 'der_bytes', 'sftp_attrs_bytes'):
        _o.bytes_param = 'body' if ('payload' in _o.name or _o.name == 'global_requests') else 'content' if _o.name == 'der_bytes' else 'tail' if _o.name == 'sftp_attrs_bytes' else 'data'

MANIFEST = dict(
    engines='A',
    technique='bounded symbolic execution (CrossHair/z3) of the real receive path, message handlers and parsers on symbolic byte strings of fixed small lengths and extreme numeric fields',
    text='Bounded symbolic verification of error discipline and work bounds: every connection-level and channel-level message type with an arbitrary '
         'byte string (symbolic, lengths 0..5, thorough ..13) as payload through the real _recv_data/_recv_packet/handler code in the post-auth state, '
         'both roles: handling terminates, at most one close, nothing escapes to the loop, bounded output; peer-chosen window / packet size at '
         'channel open and open-confirmation in {0,1,2,2^31-1,2^32-1} never leave a sender that spins; arbitrary uint32 length fields; SSHPacket '
         'getters, der_decode, and well-framed ssh-rsa blobs with impossible parameters raise only their documented errors; failed tasks are reaped; every named global request with an arbitrary body finishes within a fuel bound; the SFTP server copy-data loop never feeds on its own output; der_decode of deeply nested values raises its documented error.',
    note='Pre-auth phases are C06; SFTP/agent/SOCKS/sshsig parsers are covered under C14/C20/C16; wall-clock time and memory are not measured '
         '(ghost fuel only); byte strings longer than the stated lengths are outside the claim. Trusted: CrossHair, z3, harness oracles and stubs.')
