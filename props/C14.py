"""C14 - Each SFTP request gets exactly one matching, well-typed reply"""

import errno
import os

from asyncssh import sftp as S
from asyncssh.packet import SSHPacket, UInt32, UInt64, String, Byte
from asyncssh.sftp import SFTPAttrs, SFTPName, SFTPError, SFTPBadMessage

from vf.core import Ob, R, B
from vf.rt import assume, pick, conc
from vf.stubs import NullLogger, MiniLoop

ASSUMPTIONS = [
    'the SFTPServer application object behind the server handler is a stub: each method returns a default value of its documented type or raises a '
    'solver-chosen exception (OSError(errno), SFTPError, NotImplementedError); the writer records the packets sent',
    'request bodies are symbolic byte strings of fixed small lengths (sharded) and well-formed bodies cut/extended at a symbolic position',
    'the client waiter table holds <= 3 outstanding requests; futures are MiniLoop futures',
]


class Writer:
    def __init__(self):
        self.pkts = []

    def write(self, data):
        n = int.from_bytes(data[:4], 'big')
        self.pkts.append(bytes(data[4:4 + n]))
        if len(data) != 4 + n:
            self.pkts.append(b'BADFRAME')

    def close(self):
        pass

    def get_extra_info(self, *a, **k):
        return None


class StubServer:
    """SFTPServer whose operations fail or succeed as the solver says"""

    def __init__(self, outcome, err):
        self.outcome = outcome
        self.err = err

    def _act(self, default):
        o = self.outcome
        if o == 0:
            return default
        if o == 1:
            raise OSError(self.err, 'model')
        if o == 2:
            raise S.SFTPFailure('model')
        if o == 3:
            raise NotImplementedError()
        raise S.SFTPNoSuchFile('model')

    def format_longname(self, name):
        return None

    def map_path(self, p):
        return p

    def reverse_map_path(self, p):
        return p

    def __getattr__(self, name):
        if name.startswith('__'):
            raise AttributeError(name)
        defaults = {
            'open': object(), 'open56': object(), 'close': None, 'read': b'data', 'write': 4,
            'lstat': SFTPAttrs(size=1), 'fstat': SFTPAttrs(size=1), 'stat': SFTPAttrs(size=1),
            'setstat': None, 'fsetstat': None, 'lsetstat': None, 'remove': None, 'mkdir': None,
            'rmdir': None, 'realpath': b'/x', 'rename': None, 'posix_rename': None, 'readlink': b'/t',
            'symlink': None, 'link': None, 'statvfs': S.SFTPVFSAttrs(), 'fstatvfs': S.SFTPVFSAttrs(),
            'fsync': None, 'lock': None, 'unlock': None, 'exit': None,
        }

        def f(*a, **k):
            return self._act(defaults.get(name))
        if name == 'scandir':
            async def gen(*a, **k):
                self._act(None)
                yield SFTPName(b'f', attrs=SFTPAttrs(size=1))
            return gen
        return f


def _handler(version, outcome, err):
    h = S.SFTPServerHandler.__new__(S.SFTPServerHandler)
    h._reader = object()
    h._writer = Writer()
    h._logger = NullLogger()
    h._server = StubServer(outcome, err)
    h._version = version
    h._nonstandard_symlink = False
    h._next_handle = 1
    h._file_handles = {b'\0\0\0\0': object()}
    h._dir_handles = {}
    h.log_sent_packet = lambda *a, **k: None
    return h


INT_TYPES = sorted(k for k in S.SFTPServerHandler._packet_handlers if isinstance(k, int))
EXT_NAMES = sorted(k for k in S.SFTPServerHandler._packet_handlers if isinstance(k, bytes))
ERRNOS = [errno.ENOENT, errno.EACCES, errno.EEXIST, errno.EROFS, errno.ENOSPC, errno.EDQUOT, errno.ENOTEMPTY,
          errno.ENOTDIR, errno.ENAMETOOLONG, errno.EILSEQ, errno.ELOOP, errno.EINVAL, errno.EISDIR, errno.EIO, errno.EPERM]
# documented errno -> status map (asyncssh docs / SFTP draft), before the per-version fold
ERRMAP = {errno.ENOENT: 2, errno.EACCES: 3, errno.EEXIST: 11, errno.EROFS: 12, errno.ENOSPC: 14, errno.EDQUOT: 15,
          errno.ENOTEMPTY: 18, errno.ENOTDIR: 19, errno.ENAMETOOLONG: 20, errno.EILSEQ: 20, errno.ELOOP: 21,
          errno.EINVAL: 23, errno.EISDIR: 24}
VEND = {3: 8, 4: 13, 5: 17, 6: 31}


def fold(code, version):
    """status code legal for the version (reference)"""
    if code == 19 and version < 6:
        return 2
    if code <= 31 and code > VEND[version]:
        return 4
    return code


def _drive(coro):
    try:
        coro.send(None)
    except StopIteration as e:
        return ('ret', e.value)
    except Exception as e:
        return ('exc', e)
    return ('suspended',)


def _check_one_reply(h, pktid, want_types):
    pk = h._writer.pkts
    if len(pk) != 1:
        return False
    p = pk[0]
    if len(p) < 5 or int.from_bytes(p[1:5], 'big') != pktid:
        return False
    return p[0] in want_types


def server_reply(version: int, ti: int, ext: bool, body: bytes, outcome: int, ei: int, pktid_i: int) -> bool:
    """SFTPServerHandler._process_packet for every request type (incl.
    extended names and unknown types) with an arbitrary body and an
    arbitrary outcome of the backing operation: exactly one reply is sent,
    carrying the request id, of the type documented for that request or
    STATUS; the handler returns normally (session continues)."""
    pktid = pick([0, 1, 0x7fffffff, 0xffffffff], pktid_i)
    err = pick(ERRNOS, ei)
    h = _handler(version, outcome, err)
    if ext:
        names = EXT_NAMES + [b'unknown@x']
        name = pick(names, ti) if ti < len(names) else names[0]
        pkttype = S.FXP_EXTENDED
        payload = String(name) + body
        key = name
    else:
        types = INT_TYPES + [0, 99, 255]
        pkttype = pick(types, ti) if ti < len(types) else types[0]
        payload = body
        key = pkttype
    r = _drive(h._process_packet(pkttype, pktid, SSHPacket(payload)))
    if r[0] != 'ret':
        return False
    rt = S.SFTPServerHandler._return_types.get(key, S.FXP_STATUS)
    if key not in S.SFTPServerHandler._packet_handlers:
        rt = S.FXP_STATUS
    return _check_one_reply(h, pktid, (rt, S.FXP_STATUS))


BAD_NAMES = [b'ok', b'\xff', b'ro\xff\xfeot', b'\xc3', b'\xed\xa0\x80']


def attrs_bad_names(version: int, req: int, oi: int, gi: int, pipelined: bool) -> bool:
    """A structurally well-formed request whose attribute block carries an owner
    or group name that is not valid UTF-8 (versions 4-6): exactly one reply for
    that request id - an error STATUS when a name is invalid - the handler
    returns normally, and a following request is still answered."""
    owner, group = pick(BAD_NAMES, oi), pick(BAD_NAMES, gi)
    attrs = UInt32(0x80) + Byte(1) + String(owner) + String(group)          # flags = OWNERGROUP, type = regular
    reqs = [(S.FXP_SETSTAT, String(b'/p') + attrs), (S.FXP_MKDIR, String(b'/p') + attrs),
            (S.FXP_OPEN, String(b'/p') + UInt32(1) + UInt32(0x3) + attrs if version >= 5 else String(b'/p') + UInt32(1) + attrs)]
    pkttype, body = pick(reqs, req)
    h = _handler(version, 0, errno.ENOENT)
    r = _drive(h._process_packet(pkttype, 9, SSHPacket(body)))
    if r[0] != 'ret':
        return False                     # the exception escaped the request handler: the session dies, no reply
    if len(h._writer.pkts) != 1:
        return False
    first = h._writer.pkts[0]
    if int.from_bytes(first[1:5], 'big') != 9:
        return False
    bad = owner != b'ok' or group != b'ok'
    if bad and first[0] != S.FXP_STATUS:
        return False
    if bad and int.from_bytes(first[5:9], 'big') == 0:
        return False                     # FX_OK for a request that was rejected
    if pipelined:
        r2 = _drive(h._process_packet(S.FXP_RMDIR, 10, SSHPacket(String(b'/q'))))
        return r2[0] == 'ret' and len(h._writer.pkts) == 2 and int.from_bytes(h._writer.pkts[1][1:5], 'big') == 10
    return True


def server_ext_name(version: int, cut: int) -> bool:
    """FXP_EXTENDED whose name string itself is truncated still gets one
    STATUS reply with the request id."""
    full = String(b'fsync@openssh.com') + String(b'\0\0\0\0')
    cut = conc(cut, 0, 8)
    h = _handler(version, 0, errno.ENOENT)
    r = _drive(h._process_packet(S.FXP_EXTENDED, 7, SSHPacket(full[:cut])))
    return r[0] == 'ret' and _check_one_reply(h, 7, (S.FXP_STATUS,))


def status_codes(version: int, ei: int, op: int) -> bool:
    """A local OSError maps to the documented status code, folded to a code
    that exists in the negotiated version."""
    err = pick(ERRNOS, ei)
    h = _handler(version, 1, err)
    # stat / remove / mkdir with a well-formed body
    reqs = [(S.FXP_STAT, String(b'/p') + (UInt32(0) if version >= 4 else b'')), (S.FXP_REMOVE, String(b'/p')),
            (S.FXP_RMDIR, String(b'/p'))]
    pkttype, body = pick(reqs, op)
    r = _drive(h._process_packet(pkttype, 5, SSHPacket(body)))
    if r[0] != 'ret' or not _check_one_reply(h, 5, (S.FXP_STATUS,)):
        return False
    code = int.from_bytes(h._writer.pkts[0][5:9], 'big')
    want = fold(ERRMAP.get(err, 4), version)
    return code == want and code <= VEND[version]


def error_encode(code: int, version: int) -> bool:
    """SFTPError.encode never emits a status code the negotiated version does not define"""
    e = SFTPError(code, 'r')
    out = e.encode(version)
    c = int.from_bytes(out[:4], 'big')
    if code > 31:
        return c == code
    return c <= VEND[version] and c == fold(code, version)


class Loop(MiniLoop):
    pass


def client_waiters(n: int, start_i: int, reply_i: int, rtype: int, cancel_i: int = -1) -> bool:
    """SFTPClientHandler: with n requests outstanding (ids allocated across
    the 2^32 wrap) a reply resolves exactly the waiter of its id with the
    reply, leaves the others pending; the reply to a request whose caller was
    cancelled meanwhile is dropped without disturbing the others; an unknown
    id fails all of them with SFTPBadMessage and ends the session."""
    n = conc(n, 0, 3)
    loop = Loop()
    h = S.SFTPClientHandler.__new__(S.SFTPClientHandler)
    h._loop = loop
    h._reader = object()
    w = Writer()
    h._writer = w
    h._logger = NullLogger()
    h._version = 3
    h._requests = {}
    h.log_sent_packet = lambda *a, **k: None
    start = pick([0, 5, 0xfffffffe, 0xffffffff], start_i)
    h._next_pktid = start
    waiters = []
    ids = []
    for k in range(n):
        fut = loop.create_future()
        h._send_request(S.FXP_STAT, [String(b'/p')], fut)
        waiters.append(fut)
        ids.append((start + k) & 0xffffffff)
    # every request went out with its own id
    sent_ids = [int.from_bytes(p[1:5], 'big') for p in w.pkts]
    if sent_ids != ids or len(set(ids)) != len(ids):
        return False
    cand = ids + [(start + 7) & 0xffffffff]
    rid = pick(cand, reply_i) if reply_i < len(cand) else cand[-1]
    cancelled = conc(cancel_i, -1, 2)
    if 0 <= cancelled < n:
        waiters[cancelled].cancel()          # the caller gave up (task cancelled / wait_for timeout) after the request went out
    else:
        cancelled = -1
    pkt = SSHPacket(b'xyz')
    closed = []

    async def cleanup_super(exc):
        closed.append(exc)

    S.SFTPHandler._cleanup, saved = cleanup_super_wrapper(closed), S.SFTPHandler._cleanup
    try:
        r = _drive(h._process_packet(rtype, rid, pkt))
    finally:
        S.SFTPHandler._cleanup = saved
    loop.run(20)
    if r[0] != 'ret':
        return False
    if rid in ids:
        i = ids.index(rid)
        for k, f in enumerate(waiters):
            if k == cancelled:
                if not f.cancelled():
                    return False
            elif k == i:
                if not f.done() or f.result() != (rtype, pkt):
                    return False
            elif f.done():
                return False
        return rid not in h._requests and len(h._requests) == n - 1 and not closed
    for k, f in enumerate(waiters):
        if k == cancelled:
            continue
        if not f.done() or not isinstance(f.exception(), SFTPBadMessage):
            return False
    return h._requests == {} and len(closed) == 1


def cleanup_super_wrapper(closed):
    async def _cleanup(self, exc):
        closed.append(exc)
    return _cleanup


def client_reply_type(req: int, rtype: int, ok: bool) -> bool:
    """_make_request: a reply of a type not legal for the request is
    SFTPBadMessage for that caller; STATUS errors raise; the right type
    returns a value."""
    loop = Loop()
    h = S.SFTPClientHandler.__new__(S.SFTPClientHandler)
    h._loop = loop
    h._reader = object()
    h._writer = Writer()
    h._logger = NullLogger()
    h._version = 3
    h._utf8_decode_errors = 'strict'
    h._requests = {}
    h._next_pktid = 0
    h.log_sent_packet = lambda *a, **k: None
    reqs = [S.FXP_OPEN, S.FXP_READ, S.FXP_STAT, S.FXP_REMOVE, S.FXP_REALPATH]
    rq = pick(reqs, req)
    rts = [S.FXP_STATUS, S.FXP_HANDLE, S.FXP_DATA, S.FXP_NAME, S.FXP_ATTRS, 99]
    rt = pick(rts, rtype)
    bodies = {S.FXP_STATUS: UInt32(0 if ok else 4) + String('') + String(''), S.FXP_HANDLE: String(b'h'),
              S.FXP_DATA: String(b'd'), S.FXP_NAME: UInt32(1) + String(b'n') + String(b'l') + UInt32(0),
              S.FXP_ATTRS: UInt32(0), 99: b''}
    res = []

    async def caller():
        try:
            res.append(('ret', await h._make_request(rq, String(b'/p'))))
        except SFTPError as e:
            res.append(('err', e))

    t = loop.create_task(caller())
    loop.run(10)
    if res or len(h._requests) != 1:
        return False
    _drive(h._process_packet(rt, 0, SSHPacket(bodies[rt])))
    loop.run(20)
    if len(res) != 1 or loop.exceptions:
        return False
    legal = S.SFTPClientHandler._return_types.get(rq)
    if rt == S.FXP_STATUS:
        if not ok:
            return res[0][0] == 'err' and isinstance(res[0][1], S.SFTPFailure)
        return res[0][0] == 'ret' if legal is None else isinstance(res[0][1], SFTPBadMessage)
    if rt != legal:
        return res[0][0] == 'err' and isinstance(res[0][1], SFTPBadMessage)
    return res[0][0] == 'ret'


def attrs_roundtrip(version: int, size: bool, ids: bool, perm: bool, at: bool, at_ns: bool, mt: bool, mt_ns: bool,
                    cr: bool, cr_ns: bool, ct: bool, ct_ns: bool, ext: bool, nlink: bool) -> bool:
    """SFTPAttrs / SFTPName: every set of fields the version can carry
    survives encode -> decode unchanged, and the decoder consumes exactly what
    the encoder produced (a trailer word after it is read back intact)."""
    a = SFTPAttrs()
    if version >= 4:
        a.type = 1
    if size:
        a.size = 5
    if ids:
        if version == 3:
            a.uid, a.gid = 7, 8
        else:
            a.owner, a.group = 'o', 'g'
    if perm:
        a.permissions = 0o644
    if version == 3:
        if at or mt:
            a.atime, a.mtime = 11, 12
    else:
        if at:
            a.atime = 11
            if at_ns:
                a.atime_ns = 1
        if mt:
            a.mtime = 12
            if mt_ns:
                a.mtime_ns = 2
        if cr:
            a.crtime = 13
            if cr_ns:
                a.crtime_ns = 3
        if version >= 6 and ct:
            a.ctime = 14
            if ct_ns:
                a.ctime_ns = 4
        if version >= 6 and nlink:
            a.nlink = 2
    if ext:
        a.extended = [(b'k', b'v')]
    name = SFTPName(b'file', b'long' if version == 3 else b'', a)
    wire = name.encode(version) + UInt32(0xdeadbeef)
    p = SSHPacket(wire)
    back = SFTPName.decode(p, version)
    if p.get_remaining_payload() != UInt32(0xdeadbeef):
        return False
    b = back.attrs
    subsec = (a.atime_ns is not None or a.mtime_ns is not None or a.crtime_ns is not None or a.ctime_ns is not None)
    fields = ['type', 'size', 'uid', 'gid', 'owner', 'group', 'permissions', 'atime', 'mtime', 'crtime', 'ctime', 'nlink']
    for f in fields:
        if f == 'type' and version == 3:
            continue
        if getattr(a, f) != getattr(b, f):
            return False
    for f, t in (('atime_ns', 'atime'), ('mtime_ns', 'mtime'), ('crtime_ns', 'crtime'), ('ctime_ns', 'ctime')):
        av, bv = getattr(a, f), getattr(b, f)
        if getattr(a, t) is None:
            continue
        want = (av or 0) if subsec else None
        if bv != want:
            return False
    if (a.extended or []) != (b.extended or []):
        return False
    return back.filename == b'file'


# ---------------------------------------------------------------- Engine B: attribute flag validity

# legal attribute flag bits per protocol version, written out from draft-ietf-secsh-filexfer-02/-05/-13
REF_MASK = {
    3: 0x00000001 | 0x00000002 | 0x00000004 | 0x00000008 | 0x80000000,
    4: 0x00000001 | 0x00000004 | 0x00000008 | 0x00000010 | 0x00000020 | 0x00000040 | 0x00000080 | 0x00000100 | 0x80000000,
    5: 0x00000001 | 0x00000004 | 0x00000008 | 0x00000010 | 0x00000020 | 0x00000040 | 0x00000080 | 0x00000100 | 0x00000200 | 0x80000000,
    6: 0x00000001 | 0x00000004 | 0x00000008 | 0x00000010 | 0x00000020 | 0x00000040 | 0x00000080 | 0x00000100 | 0x00000200 |
       0x00000400 | 0x00000800 | 0x00001000 | 0x00002000 | 0x00004000 | 0x00008000 | 0x80000000,
}


def flags_concrete(version: int, flags: int) -> bool:
    """replay twin: decode a flag word (no further data) - SFTPBadMessage
    'Unsupported attribute flags' iff a bit outside the version's set is set"""
    p = SSHPacket(UInt32(flags) + bytes(200))
    illegal = flags & ~REF_MASK[version] & 0xffffffff
    if version == 3 and (flags & (0x8 | 0x20)):
        illegal &= ~0x20         # tolerated quirk: MODIFYTIME bit from some v3 servers
    try:
        SFTPAttrs.decode(p, version)
    except SFTPBadMessage as e:
        return bool(illegal) or 'Unsupported attribute flags' not in str(e.reason)
    except Exception:
        return not illegal
    return not illegal


def flags_kernel(job):
    import ast
    import z3
    from vf.engine_b import SymExec, Q, mval, get_func_ast, strip_doc, Opaque
    version = job.shard['version']
    node = get_func_ast(SFTPAttrs.decode.__func__)
    body = strip_doc(node.body)
    # the statements from `flags = packet.get_uint32()` up to and including the `if unsupported_attrs: raise`
    stmts = []
    for s in body:
        stmts.append(s)
        if isinstance(s, ast.If) and 'unsupported_attrs' in ast.unparse(s.test):
            break
    else:
        return {'status': 'inconclusive', 'reason': 'flag validity statements not found in SFTPAttrs.decode'}
    flags = z3.BitVec('flags', 64)
    se = SymExec(globals_={k: v for k, v in vars(S).items() if isinstance(v, int)}, bv=64)
    se.globals['_valid_attr_flags_v'] = S._valid_attr_flags[version]
    se.calls['packet.get_uint32'] = lambda s_, e, g: flags
    se.calls['cls'] = lambda s_, e, g: Opaque('attrs', [])
    # `_valid_attr_flags[sftp_version]` with the concrete shard version
    se.env['sftp_version'] = z3.BitVecVal(version, 64)

    class Sub(ast.NodeTransformer):
        def visit_Subscript(self, n):
            if ast.unparse(n) == '_valid_attr_flags[sftp_version]':
                return ast.copy_location(ast.Name('_valid_attr_flags_v', ast.Load()), n)
            return self.generic_visit(n)

    stmts = [ast.fix_missing_locations(Sub().visit(s)) for s in stmts]
    se.run(stmts)
    raised = se.raised
    ref = z3.BitVecVal(REF_MASK[version], 64)
    illegal = flags & ~ref
    if version == 3:
        illegal = z3.If((flags & z3.BitVecVal(0x28, 64)) != 0, illegal & ~z3.BitVecVal(0x20, 64), illegal)
    rng = z3.ULE(flags, z3.BitVecVal(0xffffffff, 64))
    q = Q(60000)
    # translator validation on concrete flag words against the real decode
    vec = 0
    for fw in [0, 1, 2, 4, 8, 0x10, 0x20, 0x28, 0x40, 0x100, 0x200, 0x400, 0x8000, 0x10000, 0x40000000, 0x80000000, 0xffffffff, 0x8000000d]:
        f_raised = z3.is_true(z3.simplify(z3.substitute(raised, (flags, z3.BitVecVal(fw, 64)))))
        try:
            SFTPAttrs.decode(SSHPacket(UInt32(fw) + bytes(300)), version)
            real = False
        except SFTPBadMessage as e:
            real = 'Unsupported attribute flags' in str(e.reason)
        except Exception:
            real = False
        vec += 1
        if f_raised != real:
            return {'status': 'inconclusive', 'reason': 'translator validation failed at flags=%#x: formula %s real %s' % (fw, f_raised, real)}
    r, m = q.check(rng, raised != (illegal != 0))
    rv, mv = q.check(rng, raised)
    if rv != 'sat':
        return {'status': 'inconclusive', 'reason': 'vacuity witness not sat'}
    base = {'queries': q.n, 'solver_s': q.t, 'evaluations': q.n + vec, 'nontrivial': q.n + vec,
            'sample': {'version': version, 'rejected_flag_word': hex(mval(mv, flags))},
            'extra': {'validation_vectors': vec, 'logic': 'QF_BV(64) over all 2^32 flag words'}}
    if r == 'unsat':
        return dict(base, status='confirmed')
    if r == 'sat':
        return dict(base, status='cex', kwargs={'version': version, 'flags': mval(m, flags)}, reason='z3 model')
    return dict(base, status='inconclusive', reason='solver ' + r)


OBLIGATIONS = [
    Ob('server_reply', server_reply,
       sym=dict(ti=R(0, 23), outcome=R(0, 4), ei=R(0, 14), pktid_i=R(0, 3)),
       shards=dict(version=[3, 6], ext=[False], L=[0, 4, 5], ei=[0], pktid_i=[3]),
       thorough_shards=dict(version=[3, 4, 5, 6], ext=[False], L=[0, 1, 4, 5, 8], ei=[7], ti=list(range(24))),
       
       timeout=200, thorough_timeout=600,
       functions=[S.SFTPServerHandler._process_packet] + [v for k, v in S.SFTPServerHandler._packet_handlers.items()],
       bounds='every request type in the handler table + unknown types / extended names; body = arbitrary bytes of length {0,4,5} (thorough {0,1,4,5,8}, request type sharded); '
              'backing operation returns / raises OSError / SFTPError / NotImplementedError; versions 3 and 6 (thorough 3..6)'),
    Ob('server_reply_ext', server_reply,
       sym=dict(ti=R(0, 9), outcome=R(0, 4), ei=R(0, 14), pktid_i=R(0, 3)),
       shards=dict(version=[3, 6], ext=[True], L=[0, 4, 5], ei=[0], pktid_i=[3]),
       thorough_shards=dict(version=[3, 4, 5, 6], ext=[True], L=[0, 1, 4, 5, 8], ei=[7], ti=list(range(10))),
       
       timeout=200, thorough_timeout=600,
       functions=[S.SFTPServerHandler._process_packet] + [v for k, v in S.SFTPServerHandler._packet_handlers.items()],
       bounds='every request type in the handler table + unknown types / extended names; body = arbitrary bytes of length {0,4,5} (thorough {0,1,4,5,8}, request type sharded); '
              'backing operation returns / raises OSError / SFTPError / NotImplementedError; versions 3 and 6 (thorough 3..6)'),
    Ob('server_ext_name', server_ext_name, sym=dict(cut=R(0, 8)), shards=dict(version=[3, 6]), timeout=60,
       functions=[S.SFTPServerHandler._process_packet], bounds='FXP_EXTENDED body cut at 0..8 bytes (inside the name string)'),
    Ob('status_codes', status_codes, sym=dict(ei=R(0, 14), op=R(0, 2)), shards=dict(version=[3, 4, 5, 6]), timeout=90,
       functions=[S.SFTPServerHandler._process_packet, SFTPError.encode], bounds='15 errno values x 3 operations x versions 3..6'),
    Ob('error_encode', error_encode, sym=dict(code=R(0, 40)), shards=dict(version=[3, 4, 5, 6]), timeout=90,
       functions=[SFTPError.encode], bounds='status codes 0..40 x versions 3..6'),
    Ob('attrs_bad_names', attrs_bad_names, sym=dict(req=R(0, 2), oi=R(0, 4), gi=R(0, 4), pipelined=B), shards=dict(version=[4, 5, 6]), timeout=200,
       functions=[S.SFTPServerHandler._process_packet, S.SFTPAttrs.decode, S.SFTPError.encode],
       bounds='SETSTAT / MKDIR / OPEN in versions 4-6 with an OWNERGROUP attribute block whose owner and group are each one of 5 byte strings (valid, lone 0xff, mixed, truncated sequence, encoded surrogate); optionally followed by a second request'),
    Ob('client_waiters', client_waiters, sym=dict(n=R(0, 3), start_i=R(0, 3), reply_i=R(0, 3), rtype=R(0, 255), cancel_i=R(-1, 2)),
       shards=dict(rtype=[101, 105]), timeout=120,
       functions=[S.SFTPClientHandler._send_request, S.SFTPClientHandler._process_packet, S.SFTPClientHandler._cleanup],
       bounds='0..3 outstanding requests, first id in {0,5,2^32-2,2^32-1}, reply id = any outstanding or an unknown one, optionally one caller cancelled before the reply'),
    Ob('client_reply_type', client_reply_type, sym=dict(req=R(0, 4), rtype=R(0, 5), ok=B), timeout=120,
       functions=[S.SFTPClientHandler._make_request, S.SFTPClientHandler._process_packet],
       bounds='5 request kinds x 6 reply types (incl. unknown) x OK/error status'),
    Ob('attrs_roundtrip', attrs_roundtrip,
       sym=dict(size=B, ids=B, perm=B, at=B, at_ns=B, mt=B, mt_ns=B, cr=B, cr_ns=B, ct=B, ct_ns=B, ext=B, nlink=B),
       shards=dict(version=[3, 4, 5, 6], size=[True], ext=[False]),
       thorough_shards=dict(version=[3, 4, 5, 6], size=[True, False], ext=[True, False]),
       timeout=200, thorough_timeout=600,
       functions=[SFTPAttrs.encode, SFTPAttrs.decode, SFTPName.encode, SFTPName.decode],
       bounds='all presence combinations of size, owner ids, permissions, 4 times and their 4 nanosecond parts, link count (+ extended pairs in thorough), versions 3..6'),
    Ob('flags_kernel', flags_concrete, engine='B', solver=flags_kernel, shards=dict(version=[3, 4, 5, 6]),
       functions=[SFTPAttrs.decode],
       bounds='all 2^32 attribute flag words per version: rejected iff a bit outside the draft-defined set for that version is set'),
]
for _o in OBLIGATIONS:
    if _o.name in ('server_reply', 'server_reply_ext'):
        _o.bytes_param = 'body'

MANIFEST = dict(
    engines='AB',
    technique='bounded symbolic execution (CrossHair/z3) of the real SFTP server/client handlers and attribute codecs + AST->z3 bit-vector kernel for attribute flag validity over all 2^32 flag words',
    text='Bounded symbolic verification: the real SFTPServerHandler._process_packet for every request type / extended name (and unknown ones) with an '
         'arbitrary short body and an arbitrary outcome of the backing operation sends exactly one reply with the request id and a legal type and '
         'keeps the session; errno values map to the documented status codes folded to the negotiated version; the client resolves exactly the '
         'waiter of the reply id (ids across the 2^32 wrap), an unknown id fails all, an ill-typed reply is SFTPBadMessage for that caller only; '
         'SFTPAttrs/SFTPName round-trip for every carriable field combination in versions 3-6; attribute flag words are rejected exactly when they '
         'contain a bit the version does not define (bit-vector proof over all 2^32 words); a reply to a cancelled caller is dropped without disturbing the others; non-UTF-8 owner/group names yield an error status.',
    note='Bodies longer than 8 bytes, more than 3 outstanding requests and real file operations are outside; the SFTPServer application object is a '
         'stub. The flag masks in REF_MASK are transcribed from the filexfer drafts and are part of the trusted base, as are CrossHair, z3 and vf/engine_b.py.')
