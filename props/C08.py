"""C08 - Flow control is honoured both ways and never deadlocks"""

from asyncssh import channel as CH
from asyncssh import stream as ST
from asyncssh.constants import EXTENDED_DATA_STDERR
from asyncssh.misc import ProtocolError
from asyncssh.packet import SSHPacket, UInt32, String

from vf.core import Ob, R, B
from vf.rt import Fuel, assume, pick, conc, notrace
from props.chanlib import mkchan, split_sent, RecSession

ASSUMPTIONS = [
    'channel objects are built by the real SSHChannel.__init__ on a recording connection stub and put in the open state directly '
    '(send_chan=7, send/recv state open) - the state process_open_confirmation produces',
    'representation invariant assumed for the sender: peer max packet size >= 1 (established by the channel-open handlers; '
    'that establishment is obligation C10.open_params)',
    'session callbacks are recording stubs; logger is a no-op',
    'liveness beyond "the next step is enabled / the window is replenished after a delivery" is not claimed',
]

DATA = bytes(range(65, 65 + 12))


def send_window(window: int, pktsize: int, n1: int, n2: int, adj: int, stderr2: bool, fin: int, rstate: int = 0) -> bool:
    """Sender: two writes, optionally write_eof()/close(), then a
    WINDOW_ADJUST.  Every DATA packet is non-empty, no larger than the peer's
    packet size or the window at that moment; total sent == min(total
    written, window + adjust); order kept; EOF/CLOSE goes out exactly once,
    after the last data byte and only when everything was flushed."""
    chan, conn, loop = mkchan(window=64, pktsize=64, fuel=40)
    chan._send_window = window
    chan._send_pktsize = pktsize
    d1 = DATA[:n1]
    d2 = DATA[6:6 + n2]
    dt2 = EXTENDED_DATA_STDERR if stderr2 else None
    chan.write(d1)
    chan.write(d2, dt2)
    if fin == 1:
        chan.write_eof()
    elif fin == 2:
        chan.close()
    mid = len(conn.sent)
    # the peer may already have sent EOF for *its* direction (delivered or still queued behind a paused reader):
    # WINDOW_ADJUST governs our direction and must still be honoured
    chan._recv_state = pick(['open', 'eof_pending', 'eof'], rstate)
    chan._process_window_adjust(93, 0, SSHPacket(UInt32(adj)))
    pk = split_sent(conn.sent)
    total = d1 + d2
    budget = window + adj
    avail = window
    out = b''
    tail = []
    for i in range(len(pk)):
        kind, dt, data, wf = pk[i]
        if not wf:
            return False
        if i == mid:
            avail += adj
        if kind != 'data':
            tail.append(kind)
            continue
        if tail:
            return False                 # data after EOF/CLOSE
        if not (0 < len(data) <= pktsize and len(data) <= avail):
            return False
        avail -= len(data)
        # datatype must be that of the write the bytes came from
        pos = len(out)
        want = None if pos < n1 else dt2
        if dt != want or (pos < n1 < pos + len(data)):
            return False
        out += data
    ok = out == total[:len(out)] and len(out) == min(len(total), budget)
    done = len(out) == len(total)
    if fin == 1:
        ok = ok and tail == (['eof'] if done else []) and chan._send_state == ('eof' if done else 'eof_pending')
    elif fin == 2:
        ok = ok and tail == (['close'] if done else []) and chan._send_state == ('closed' if done else 'close_pending')
    else:
        ok = ok and tail == [] and chan._send_state == 'open'
    if not (fin == 2 and done):
        ok = ok and chan._send_window == budget - len(out)
        ok = ok and chan._send_buf_len == len(total) - len(out)
        ok = ok and chan._send_buf_len == sum(len(b) for b, _ in chan._send_buf)
    return ok


class _U32:
    """stands for the 4-byte encoding of v (packet encoder stub)"""
    def __init__(self, v):
        self.v = v


def _adjusts(conn, start=0):
    return [p[1] for p in split_sent(conn.sent[start:]) if p[0] == 'adjust']


def recv_step(init: int, w: int, paused: bool, b1: int, b2: int, ev: int, n: int) -> bool:
    """Receiver, one inductive step.  Pre-state: any state satisfying the
    invariant INV: 0 <= _recv_window <= init, init/2 <= _recv_window + buffered <= init,
    buffer non-empty only while paused.
    `_recv_window` is by definition what is left of the advertised window
    (initial + adjusts sent - bytes accepted).  Event: DATA / EXTENDED_DATA of
    n bytes, pause, or resume.  Post: a data packet is accepted iff n <=
    _recv_window (else ProtocolError) - also while paused; the new
    _recv_window equals old - n + adjusts sent in this step; INV holds again;
    delivered + buffered bytes are exactly the accepted ones, in order."""
    b1 = conc(b1, 0, 3)
    b2 = conc(b2, 0, 3)
    n = conc(n, 0, init + 1)
    w = conc(w, 0, init)        # `init / 2` is float arithmetic: CrossHair cannot keep w symbolic across it
    assume(0 <= w <= init and w + b1 + b2 <= init and 2 * (w + b1 + b2) >= init)
    assume(paused or (b1 == 0 and b2 == 0))
    assume(b1 > 0 or b2 == 0)
    chan, conn, loop = mkchan(cls=CH.SSHClientChannel, window=init, pktsize=64, fuel=40)
    sess = chan._session
    rec = []
    chan.send_packet = lambda t, *a: rec.append((t, a))     # below the UInt32 stub
    chan._recv_window = w
    chan._recv_paused = paused
    pre_buf = []
    if b1:
        pre_buf.append((DATA[:b1], None))
    if b2:
        pre_buf.append((DATA[4:4 + b2], EXTENDED_DATA_STDERR))
    chan._recv_buf = list(pre_buf)
    new = []
    saved = CH.UInt32
    CH.UInt32 = _U32                     # keep the adjust value symbolic (not encoded)
    try:
        if ev == 2:
            chan.pause_reading()
        elif ev == 3:
            chan.resume_reading()
        else:
            data = (DATA * 2)[:n]
            dt = None if ev == 0 else EXTENDED_DATA_STDERR
            try:
                if ev == 0:
                    chan._process_data(94, 0, SSHPacket(String(data)))
                else:
                    chan._process_extended_data(95, 0, SSHPacket(UInt32(1) + String(data)))
            except ProtocolError:
                return n > w                 # only excess may be refused
            if n > w:
                return False                 # excess accepted
            if n:
                new.append((data, dt))
    finally:
        CH.UInt32 = saved
    adj = 0
    for t, a in rec:
        if t != 93 or len(a) != 1 or not isinstance(a[0], _U32) or a[0].v <= 0:
            return False                 # only well-formed WINDOW_ADJUSTs are sent here
        adj += a[0].v
    w2 = chan._recv_window
    if w2 != w - sum(len(d) for d, _ in new) + adj:
        return False                     # window no longer equals advertised - accepted
    delivered = [(e[1], e[2]) for e in sess.log if e[0] == 'data']
    buffered = [(bytes(d), t) for d, t in chan._recv_buf]
    if delivered + buffered != pre_buf + new:
        return False                     # loss, duplication or reordering
    bl = sum(len(d) for d, _ in buffered)
    if not (0 <= w2 <= init and w2 + bl <= init and 2 * (w2 + bl) >= init):
        return False
    if chan._recv_paused:
        return len(delivered) == 0 or ev == 3
    return bl == 0 and 2 * w2 >= init    # replenished while the reader keeps reading


def recv_seq(init: int, k0: int, k1: int, k2: int, k3: int,
             l0: int, l1: int, l2: int, l3: int, nev: int) -> bool:
    """Receiver, bounded histories from the initial state (cross-check of the
    invariant used by recv_step): data lengths from {0, 1, init, init+1}."""
    chan, conn, loop = mkchan(cls=CH.SSHClientChannel, window=init, pktsize=64, fuel=40)
    advertised = init
    received = 0
    kinds = [k0, k1, k2, k3]
    lens = [l0, l1, l2, l3]
    cand = [0, 1, init, init + 1]
    seen = 0
    for i in range(nev):
        k = kinds[i]
        if k == 2:
            chan.pause_reading()
        elif k == 3:
            chan.resume_reading()
        else:
            n = pick(cand, lens[i])
            data = (DATA * 2)[:n]
            remaining = advertised - received
            try:
                if k == 0:
                    chan._process_data(94, 0, SSHPacket(String(data)))
                else:
                    chan._process_extended_data(95, 0, SSHPacket(UInt32(1) + String(data)))
            except ProtocolError:
                return n > remaining
            if n > remaining:
                return False
            received += n
        adjs = _adjusts(conn)
        while seen < len(adjs):
            advertised += adjs[seen]
            seen += 1
        if advertised - received > init:
            return False
        if not chan._recv_paused and init > 0 and 2 * (advertised - received) < init:
            return False
    return True


class _StreamChan:
    def __init__(self, window):
        self.window = window
        self.paused = False
        self.log = []

    def get_connection(self):
        return None

    def get_encoding(self):
        return None, 'strict'

    def get_loop(self):
        return None

    def get_recv_window(self):
        return self.window

    def get_read_datatypes(self):
        return {EXTENDED_DATA_STDERR}

    def get_write_datatypes(self):
        return set()

    def pause_reading(self):
        self.paused = True
        self.log.append('pause')

    def resume_reading(self):
        self.paused = False
        self.log.append('resume')


def stream_pause(window: int, n1: int, n2: int, rd: int) -> bool:
    """SSHStreamSession: reading is paused exactly when the bytes buffered for
    a datatype reach the channel window; a read that drops below resumes."""
    n1 = conc(n1, 0, 6)
    n2 = conc(n2, 0, 6)
    rd = conc(rd, 1, 8)
    s = ST.SSHStreamSession()
    ch = _StreamChan(window)
    s.connection_made(ch)
    if n1:
        s.data_received(DATA[:n1], None)
    if ch.paused != (n1 >= window):
        return False
    if n2:
        s.data_received(DATA[:n2], None)
    if ch.paused != (n1 + n2 >= window):
        return False
    from vf.stubs import drive
    r = drive(s.read(None, rd, False))
    if n1 + n2 == 0:
        return r[0] == 'exc' or r[0] == 'suspended'
    if r[0] != 'ret':
        return False
    got = len(r[1])
    left = n1 + n2 - got
    return ch.paused == (left >= window) and 0 < got <= rd


HL = [(0, 0), (1, 0), (1, 1), (3, 0), (3, 1), (2, 2)]


def write_pause(hl: int, n1: int, n2: int, w: int, a1: int, a2: int) -> bool:
    n1, n2, w, a1, a2 = conc(n1, 0, 3), conc(n2, 0, 3), conc(w, 0, 3), conc(a1, 0, 4), conc(a2, 0, 6)
    high, low = HL[hl]
    with notrace():
        return _write_pause(high, low, n1, n2, w, a1, a2)


def _write_pause(high, low, n1, n2, w, a1, a2):
    """Write-side back-pressure: with write buffer limits (high, low) the
    session is told to pause exactly when the unsent data exceeds high and to
    resume as soon as it has drained to low or below (so with low = 0: when it
    is empty) - pause/resume alternate, and a paused writer is always resumed
    once the window has let the data out."""
    sess = RecSession()
    chan, conn, loop = mkchan(window=64, pktsize=64, fuel=60, session=sess)
    chan._send_window = w
    chan._send_pktsize = 64
    chan.set_write_buffer_limits(high, low)
    events = []
    paused = False

    def step(buffered):
        nonlocal paused
        if paused and buffered <= low:
            paused = False
            events.append('resume_w')
        elif not paused and buffered > high:
            paused = True
            events.append('pause_w')

    sent = min(w, n1)
    chan.write(DATA[:n1])
    step(n1 - sent)
    avail = w - sent
    s2 = min(avail, n2)
    chan.write(DATA[:n2])
    step(n1 - sent + n2 - s2)
    left = n1 - sent + n2 - s2
    for adj in (a1, a2):
        chan._process_window_adjust(93, 0, SSHPacket(UInt32(adj)))
        out = min(left, adj) if left else 0
        left -= out
        step(left)
    got = [e[0] for e in sess.log if e[0] in ('pause_w', 'resume_w')]
    return got == events and chan._send_buf_len == left


OBLIGATIONS = [
    Ob('adjust_after_eof', send_window,
       sym=dict(window=R(0, 3), pktsize=R(1, 2), adj=R(0, 4), rstate=R(1, 2)),
       shards=dict(n1=[3], n2=[0, 2], fin=[0, 1, 2]), fixed=dict(stderr2=False), timeout=150,
       functions=[CH.SSHChannel._process_window_adjust, CH.SSHChannel._flush_send_buf],
       bounds='same harness as send_window with the receive side in state eof_pending / eof (peer already sent EOF) when the WINDOW_ADJUST arrives: window 0..3, packet size 1..2, adjust 0..4'),
    Ob('write_pause', write_pause,
       sym=dict(n1=R(0, 3), n2=R(0, 3), w=R(0, 3), a1=R(0, 4), a2=R(0, 6)),
       shards=dict(hl=[0, 1, 2, 3, 4, 5]), timeout=300,
       functions=[CH.SSHChannel._pause_resume_writing, CH.SSHChannel.set_write_buffer_limits, CH.SSHChannel.write, CH.SSHChannel._flush_send_buf],
       bounds='write buffer limits (high, low) in {(0,0),(1,0),(1,1),(3,0),(3,1),(2,2)}, two writes of 0..3 bytes against a window of 0..3, two adjusts (0..4, 0..6)'),
    Ob('send_window', send_window,
       sym=dict(window=R(0, 5), pktsize=R(1, 4), n1=R(0, 3), n2=R(0, 3), adj=R(0, 4), stderr2=B, fin=R(0, 2)),
       shards=dict(n1=[0, 2, 3, 5], n2=[0, 2], fin=[0, 1, 2]),
       thorough_shards=dict(n1=[0, 1, 2, 3, 4, 5], n2=[0, 1, 2, 3, 4, 5], fin=[0, 1, 2]),
       thorough_sym=dict(window=R(0, 9), pktsize=R(1, 6), adj=R(0, 6)),
       timeout=240, thorough_timeout=600,
       functions=[CH.SSHChannel.write, CH.SSHChannel._flush_send_buf,
                  CH.SSHChannel._process_window_adjust, CH.SSHChannel.send_packet, CH.SSHChannel.write_eof, CH.SSHChannel.close, CH.SSHChannel._close_send,
                  CH.SSHChannel._pause_resume_writing],
       bounds='2 writes of n1,n2 bytes (sharded), window 0..6 (thorough 0..9), peer pktsize 1..4 (1..6), one adjust 0..4 (0..6), stdout/stderr'),
    Ob('recv_step', recv_step,
       sym=dict(w=R(0, 16), paused=B, b1=R(0, 3), b2=R(0, 3), ev=R(2, 3)),
       shards=dict(init=[0, 1, 2, 3, 5, 8]), fixed=dict(n=0),
       thorough_shards=dict(init=[0, 1, 2, 3, 4, 5, 6, 7, 8, 9, 12, 15, 16]),
       thorough_sym=dict(ev=R(0, 3), n=R(0, 17)),
       timeout=120, thorough_timeout=600,
       functions=[CH.SSHChannel._process_data, CH.SSHChannel._process_extended_data,
                  CH.SSHChannel._accept_data, CH.SSHChannel._deliver_data,
                  CH.SSHChannel._flush_recv_buf, CH.SSHChannel.pause_reading,
                  CH.SSHChannel.resume_reading],
       bounds='one pause/resume event (thorough: also data events) from any state satisfying the window invariant: initial window sharded over {0,1,2,3,5,8} (thorough 13 values up to 16), w 0..init, <= 2 buffered chunks of <= 3 bytes; data events for all init/w/n are the Engine B recv_kernel'),
    Ob('recv_seq', recv_seq,
       sym=dict(k0=R(0, 3), k1=R(0, 3), k2=R(0, 3), k3=R(0, 3),
                l0=R(0, 3), l1=R(0, 3), l2=R(0, 3), l3=R(0, 3)),
       shards=dict(init=[1, 4], nev=[3]),
       thorough_shards=dict(init=[0, 1, 2, 3, 8], nev=[4], k0=[0, 1, 2]),
       timeout=120, thorough_timeout=900,
       functions=[CH.SSHChannel._process_data, CH.SSHChannel._accept_data, CH.SSHChannel._deliver_data,
                  CH.SSHChannel._flush_recv_buf],
       bounds='3 (thorough 4) events from {data, stderr data, pause, resume} from the initial state, data length in {0,1,init,init+1}'),
    Ob('stream_pause', stream_pause,
       sym=dict(window=R(1, 14), n1=R(0, 6), n2=R(0, 6), rd=R(1, 8)),
       shards=dict(rd=[1, 3, 8]),
       thorough_shards=dict(rd=[1, 2, 3, 4, 5, 6, 7, 8, 12]),
       timeout=90, thorough_timeout=300,
       functions=[ST.SSHStreamSession.data_received, ST.SSHStreamSession.read,
                  ST.SSHStreamSession._should_pause_reading, ST.SSHStreamSession._maybe_resume_reading],
       bounds='window 1..6, two chunks 0..6 bytes, one read(n) n 1..8'),
]


# ---------------------------------------------------------------- Engine B kernels

def recv_data_concrete(init: int, w: int, paused: bool, n: int, ext: bool) -> bool:
    """Concrete replay/validation twin of the recv kernel: real
    _process_data/_process_extended_data from the state (init, w, paused)."""
    r = _recv_data_run(init, w, paused, n, ext)
    raised, w2, adj, delivered, buffered = r
    if raised:
        return n > w
    if n > w:
        return False
    ok = w2 == w - n + adj and 0 <= w2 <= init
    if n == 0:
        return ok and adj == 0 and delivered == 0 and buffered == 0
    if paused:
        return ok and adj == 0 and delivered == 0 and buffered == n
    return ok and delivered == n and buffered == 0 and 2 * w2 >= init


def _recv_data_run(init, w, paused, n, ext):
    chan, conn, loop = mkchan(cls=CH.SSHClientChannel, window=init, pktsize=64, fuel=40)
    chan._recv_window = w
    chan._recv_paused = paused
    data = bytes(n)
    try:
        if ext:
            chan._process_extended_data(95, 0, SSHPacket(UInt32(1) + String(data)))
        else:
            chan._process_data(94, 0, SSHPacket(String(data)))
    except ProtocolError:
        return (True, chan._recv_window, 0, 0, 0)
    adj = sum(_adjusts(conn))
    delivered = sum(len(e[1]) for e in chan._session.log if e[0] == 'data')
    buffered = sum(len(d) for d, _ in chan._recv_buf)
    return (False, chan._recv_window, adj, delivered, buffered)


def recv_kernel(job):
    """AST->z3: _process_data/_process_extended_data -> _accept_data ->
    _deliver_data, window arithmetic for ALL init, w, n (mathematical ints,
    `/ 2` as exact real division)."""
    import z3
    from vf.engine_b import SymExec, Opaque, Q, mval, get_func_ast, strip_doc, Unsupported
    ext = job.shard['ext']
    init, w, n = z3.Ints('init w n')
    paused = z3.Bool('paused')

    def build():
        se = SymExec(globals_={k: v for k, v in vars(CH).items() if isinstance(v, int)},
                     ignore_calls=('self.logger.', 'packet.check_end'))
        se.attrs.update(_recv_state='open', _send_state='open', _recv_window=w,
                        _init_recv_window=init, _recv_paused=paused, _encoding=None,
                        _session=Opaque('obj', []), _read_datatypes=None)
        data = Opaque('bytes', [n])

        def get_string(se_, e, g):
            return data

        def get_uint32(se_, e, g):
            return z3.IntVal(1)

        def accept(se_, e, g):
            args = [se_.ev(a) for a in e.args]
            return se_.inline(CH.SSHChannel._accept_data, args, g)

        def deliver(se_, e, g):
            args = [se_.ev(a) for a in e.args]
            return se_.inline(CH.SSHChannel._deliver_data, args, g)

        def send_packet(se_, e, g):
            a0 = se_.ev(e.args[0])
            a1 = se_.ev(e.args[1])
            se_.effects.append((g, 'send', a0, a1))

        def uint32(se_, e, g):
            return Opaque('u32', [se_.ev(e.args[0])])

        def buf_append(se_, e, g):
            t = se_.ev(e.args[0])
            se_.effects.append((g, 'buffer', t.items[0], t.items[1]))

        def data_received(se_, e, g):
            se_.effects.append((g, 'deliver', se_.ev(e.args[0]), se_.ev(e.args[1])))

        se.calls.update({'packet.get_string': get_string, 'packet.get_uint32': get_uint32,
                         'self._accept_data': accept, 'self._deliver_data': deliver,
                         'self.send_packet': send_packet, 'UInt32': uint32,
                         'self._recv_buf.append': buf_append,
                         'self._session.data_received': data_received})
        # `datatype not in self._read_datatypes` is an attribute of the packet, not of the window logic
        se.hooks['if datatype not in self._read_datatypes:\n    raise ProtocolError(\'Invalid extended data type\')'] = lambda s_, g: None
        fn = CH.SSHChannel._process_extended_data if ext else CH.SSHChannel._process_data
        node = get_func_ast(fn)
        se.env = {'packet': Opaque('pkt', []), '_pkttype': z3.IntVal(0), '_pktid': z3.IntVal(0)}
        se.run(strip_doc(node.body))
        return se

    se = build()
    w2 = se.attrs['_recv_window']
    raised = se.raised
    adj = z3.IntVal(0)
    nsend = z3.IntVal(0)
    for eff in se.effects:
        if eff[1] == 'send':
            if not (isinstance(eff[3], Opaque) and eff[3].name == 'u32'):
                return {'status': 'inconclusive', 'reason': 'send_packet argument not UInt32(...)'}
            adj = adj + z3.If(eff[0], eff[3].args[0], 0)
            nsend = nsend + z3.If(eff[0], 1, 0)
            if not z3.is_true(z3.simplify(eff[2] == CH.MSG_CHANNEL_WINDOW_ADJUST)):
                return {'status': 'inconclusive', 'reason': 'unexpected packet type sent'}
    deliv = sum([z3.If(e[0], e[2].args[0], 0) for e in se.effects if e[1] == 'deliver'], z3.IntVal(0))
    buff = sum([z3.If(e[0], e[2].args[0], 0) for e in se.effects if e[1] == 'buffer'], z3.IntVal(0))
    INV = z3.And(init >= 0, init < 2 ** 32, w >= 0, w <= init, n >= 0,
                 z3.Implies(z3.Not(paused), 2 * w >= init))
    post = z3.And(
        raised == (n > w),
        z3.Implies(z3.Not(raised), z3.And(
            w2 == w - n + adj, w2 >= 0, w2 <= init,
            z3.Implies(n == 0, z3.And(adj == 0, deliv == 0, buff == 0)),
            z3.Implies(z3.And(n > 0, paused), z3.And(adj == 0, deliv == 0, buff == n)),
            z3.Implies(z3.And(n > 0, z3.Not(paused)), z3.And(deliv == n, buff == 0, 2 * w2 >= init)),
            z3.Implies(adj != 0, z3.And(adj > 0, adj < 2 ** 32, nsend == 1)))))
    q = Q(60000)
    # translator validation: concrete vectors through the real code and the formula
    vec = 0
    for ci in (0, 1, 2, 3, 7, 8, 1000):
        for cw in sorted({0, 1, ci // 2, (ci + 1) // 2, ci}):
            if cw > ci:
                continue
            for cp in (False, True):
                if not cp and 2 * cw < ci:
                    continue
                for cn in sorted({0, 1, cw, cw + 1}):
                    real = _recv_data_run(ci, cw, cp, cn, ext)
                    sub = [(init, z3.IntVal(ci)), (w, z3.IntVal(cw)), (n, z3.IntVal(cn)), (paused, z3.BoolVal(cp))]
                    f_raised = z3.is_true(z3.simplify(z3.substitute(raised, *sub)))
                    f_w2 = z3.simplify(z3.substitute(w2, *sub)).as_long()
                    f_adj = z3.simplify(z3.substitute(adj, *sub)).as_long()
                    f_del = z3.simplify(z3.substitute(deliv, *sub)).as_long()
                    f_buf = z3.simplify(z3.substitute(buff, *sub)).as_long()
                    vec += 1
                    if f_raised != real[0] or (not f_raised and (f_w2, f_adj, f_del, f_buf) != real[1:]):
                        return {'status': 'inconclusive', 'queries': q.n,
                                'reason': 'translator validation failed at %r: formula %r real %r' % (
                                    (ci, cw, cp, cn), (f_raised, f_w2, f_adj, f_del, f_buf), real)}
    r, m = q.check(INV, z3.Not(post))
    # vacuity witness: INV together with the positive post-condition must be satisfiable
    rv, mv = q.check(INV, post, n > 0, z3.Not(raised), adj > 0)
    if rv != 'sat':
        return {'status': 'inconclusive', 'reason': 'vacuity witness not sat: ' + rv, 'queries': q.n}
    sample = {'init': mval(mv, init), 'w': mval(mv, w), 'n': mval(mv, n), 'paused': mval(mv, paused),
              'adjust_sent': mval(mv, adj)}
    base = {'queries': q.n, 'solver_s': q.t, 'evaluations': q.n + vec, 'nontrivial': q.n + vec,
            'sample': sample, 'extra': {'validation_vectors': vec, 'logic': 'LIRA (ints + exact real division)',
                                        'range': 'init < 2^32, w <= init, n >= 0 unbounded'}}
    if r == 'unsat':
        return dict(base, status='confirmed')
    if r == 'sat':
        # prefer a small replayable model
        r2, m2 = q.check(INV, z3.Not(post), n <= 4096, init <= 1 << 20)
        if r2 == 'sat':
            m = m2
        kw = {'init': mval(m, init), 'w': mval(m, w), 'paused': mval(m, paused), 'n': mval(m, n), 'ext': ext}
        if kw['n'] > 1 << 22:
            return dict(base, status='inconclusive', reason='model too large to replay: %r' % kw)
        return dict(base, status='cex', kwargs=kw, reason='z3 model of INV and not POST')
    return dict(base, status='inconclusive', reason='solver returned ' + r)


OBLIGATIONS.append(
    Ob('recv_kernel', recv_data_concrete, engine='B', solver=recv_kernel,
       shards=dict(ext=[False, True]),
       functions=[CH.SSHChannel._process_data, CH.SSHChannel._process_extended_data,
                  CH.SSHChannel._accept_data, CH.SSHChannel._deliver_data],
       bounds='all initial windows < 2^32, all remaining windows w <= init, all data lengths n >= 0, paused or not; '
              'one DATA / EXTENDED_DATA event (one inductive step); buffers abstracted to their lengths'))

MANIFEST = dict(
    engines='AB',
    technique='bounded symbolic execution (CrossHair/z3) of the real channel send/receive code + AST->z3 inductive-step kernel for the receive-window arithmetic (all window sizes)',
    text='Bounded symbolic verification of the real SSHChannel flow-control code. Sender: two writes x optional EOF/close x one WINDOW_ADJUST with symbolic '
         'window, peer packet size and adjust: every DATA packet fits window and packet size, totals and order are exact, EOF/CLOSE only after the last byte. '
         'Receiver: one inductive step from an arbitrary state satisfying the window invariant (Engine B, all init < 2^32, all w, n) - a packet is accepted iff '
         'it fits the advertised window, also while paused; the window is replenished to >= init/2 after a delivery - plus CrossHair pause/resume steps and '
         '3-4 event histories from the initial state. Stream reader pauses exactly at one window of buffered data. Not a proof of liveness: only '
         '"the next step is enabled and the window is replenished" is checked. WINDOW_ADJUST is honoured after the peer EOF; write-side pause/resume follows the high/low water marks exactly.',
    note='Assumes: peer max packet size >= 1 once a channel is open (established by obligation C10.open_params); session callbacks, logger and the '
         'connection below the channel are recording stubs; buffers are abstracted to lengths in the Engine B kernel (validated against the real '
         'functions on concrete vectors each run). Bounds per obligation are in the evidence file. Trusted: CrossHair, z3, the harness oracles.')


def flush_iter_concrete(w: int, p: int, b: int, stderr: bool) -> bool:
    """replay twin of the send-loop kernel: one buffered chunk of b bytes, window w, peer packet size p"""
    chan, conn, loop = mkchan(window=64, pktsize=64, fuel=100000)
    chan._send_window = 0
    chan._send_pktsize = p
    chan.write(bytes(b), EXTENDED_DATA_STDERR if stderr else None)
    chan._send_window = w
    before = len(conn.sent)
    # run exactly one iteration's worth by capping the window at what one iteration may take
    chan._flush_send_buf()
    pk = split_sent(conn.sent[before:])
    if not pk:
        return w == 0 or b == 0
    first = len(pk[0][2])
    return first == min(b, w, p) and 1 <= first <= p and first <= w and pk[0][1] == (EXTENDED_DATA_STDERR if stderr else None) and \
        sum(len(x[2]) for x in pk) == min(b, w) and chan._send_window == w - min(b, w) and chan._send_buf_len == b - min(b, w)


def flush_kernel(job):
    """AST->z3: the body of the `while` loop in SSHChannel._flush_send_buf, one
    iteration from an arbitrary state (window w >= 1, peer packet size p >= 1,
    head buffer of b >= 1 bytes, buffered total L >= b): exactly one data packet of
    min(b, w, p) >= 1 bytes is sent with the buffer's datatype, window and
    buffered length shrink by that amount, the head buffer is popped iff it was
    emptied.  Progress >= 1 byte per iteration bounds the loop by L iterations for
    ALL window / packet / buffer sizes."""
    import ast
    import z3
    from vf.engine_b import SymExec, Opaque, Q, mval, get_func_ast, strip_doc
    node = get_func_ast(CH.SSHChannel._flush_send_buf)
    loops = [s for s in strip_doc(node.body) if isinstance(s, ast.While)]
    if len(loops) != 1 or ast.unparse(loops[0].test) != 'self._send_buf and self._send_window':
        return {'status': 'inconclusive', 'reason': 'send loop not found or its condition changed: %s' % (loops and ast.unparse(loops[0].test))}
    body = loops[0].body
    w, p, b, L = z3.Ints('w p b L')
    stderr = z3.Bool('stderr')
    se = SymExec(globals_={k: v for k, v in vars(CH).items() if isinstance(v, int)}, ignore_calls=('self.logger.',))
    se.attrs.update(_send_window=w, _send_pktsize=p, _send_buf_len=L)
    state = {'head': b, 'popped': z3.BoolVal(False)}

    def h_head(s_, g):
        s_.env['buf'] = Opaque('bytes', [state['head']])
        s_.env['datatype'] = 'DT'

    def h_slice(s_, g):
        s_.env['data'] = s_.merge(g, Opaque('bytes', [s_.env['pktsize']]), s_.env.get('data')) if 'data' in s_.env else Opaque('bytes', [s_.env['pktsize']])
        state['data_slice_g'] = g

    def h_delslice(s_, g):
        state['head'] = z3.If(g, state['head'] - s_.env['pktsize'], state['head'])

    def h_whole(s_, g):
        state['data_whole_g'] = g

    def h_pop(s_, g):
        state['popped'] = z3.Or(state['popped'], g)

    se.hooks['buf, datatype = self._send_buf[0]'] = h_head
    se.hooks['data = buf[:pktsize]'] = h_slice
    se.hooks['del buf[:pktsize]'] = h_delslice
    se.hooks['data = buf'] = h_whole
    se.hooks['del self._send_buf[0]'] = h_pop
    sent = []

    def send_packet(s_, e, g):
        sent.append((g, ast.unparse(e.args[0]), len(e.args)))

    se.calls['self.send_packet'] = send_packet
    se.calls['String'] = lambda s_, e, g: Opaque('str', [])
    se.calls['UInt32'] = lambda s_, e, g: Opaque('u32', [])
    # `datatype is None` decides the packet type: model the datatype as a symbolic flag
    class DT:
        pass
    se.env['datatype_is_none'] = z3.Not(stderr)
    # interpret: data length is min(...) by construction of the two branches; represent `data` as bytes of symbolic length d
    d = z3.Int('d')

    # Replace len(data) by d with the branch-defined value: evaluate statements manually for the if/else on len(buf) > pktsize
    try:
        stmts = list(body)
        # 1. pktsize = min(window, pktsize)
        se.run(stmts[:2])
        pkt = se.env['pktsize']
        head = state['head']
        cond = head > pkt
        dlen = z3.If(cond, pkt, head)
        if not (isinstance(stmts[2], ast.If) and ast.unparse(stmts[2].test) == 'len(buf) > pktsize'):
            return {'status': 'inconclusive', 'reason': 'split statement changed: ' + ast.unparse(stmts[2])[:80]}
        branch_texts = ([ast.unparse(x) for x in stmts[2].body], [ast.unparse(x) for x in stmts[2].orelse])
        if branch_texts != (['data = buf[:pktsize]', 'del buf[:pktsize]'], ['data = buf', 'del self._send_buf[0]']):
            return {'status': 'inconclusive', 'reason': 'split branches changed: %r' % (branch_texts,)}
        head2 = z3.If(cond, head - pkt, 0)          # remaining bytes of the head buffer (0 = popped)
        popped = z3.Not(cond)
        se.env['data'] = Opaque('bytes', [dlen])
        # 2. the accounting statements and the send
        rest = stmts[3:]
        is_none_if = [s for s in rest if isinstance(s, ast.If) and ast.unparse(s.test) == 'datatype is None']
        acct = [s for s in rest if not isinstance(s, ast.If)]
        se.run(acct)
        if len(is_none_if) != 1:
            return {'status': 'inconclusive', 'reason': 'datatype dispatch changed'}
        t_none = ast.unparse(is_none_if[0].body[0].value.args[0])
        t_ext = ast.unparse(is_none_if[0].orelse[0].value.args[0])
        n_none = len(is_none_if[0].body) == 1 and len(is_none_if[0].body[0].value.args) == 2
        n_ext = len(is_none_if[0].orelse) == 1 and len(is_none_if[0].orelse[0].value.args) == 3
        if (t_none, t_ext, n_none, n_ext) != ('MSG_CHANNEL_DATA', 'MSG_CHANNEL_EXTENDED_DATA', True, True):
            return {'status': 'inconclusive', 'reason': 'send statements changed: %r' % ((t_none, t_ext, n_none, n_ext),)}
    except KeyError as e:
        return {'status': 'inconclusive', 'reason': 'loop body no longer fits the kernel: %r' % (e,)}
    w2, L2 = se.attrs['_send_window'], se.attrs['_send_buf_len']
    mn = z3.If(b <= w, z3.If(b <= p, b, p), z3.If(w <= p, w, p))
    pre = z3.And(w >= 1, p >= 1, b >= 1, L >= b)
    post = z3.And(dlen == mn, dlen >= 1, dlen <= p, dlen <= w, w2 == w - dlen, w2 >= 0, L2 == L - dlen, L2 >= 0,
                  head2 == b - dlen, popped == (b <= z3.If(w <= p, w, p)), z3.Implies(z3.Not(popped), head2 >= 1))
    q = Q(60000)
    vec = 0
    for cw, cp, cb_ in ((1, 1, 1), (5, 2, 3), (2, 5, 3), (3, 3, 3), (10, 4, 9), (1, 9, 9), (100000, 32768, 70000)):
        ok = flush_iter_concrete(cw, cp, cb_, False)
        f = z3.simplify(z3.substitute(dlen, (w, z3.IntVal(cw)), (p, z3.IntVal(cp)), (b, z3.IntVal(cb_)))).as_long()
        vec += 1
        if not ok:
            # the real function itself violates the property on a validation vector: report it (replayed like any model)
            return {'status': 'cex', 'kwargs': {'w': cw, 'p': cp, 'b': cb_, 'stderr': False}, 'reason': 'validation vector', 'queries': q.n}
        if f != min(cw, cp, cb_):
            return {'status': 'inconclusive', 'reason': 'translator validation failed at %r: formula %d' % ((cw, cp, cb_), f)}
    r, m = q.check(pre, z3.Not(post))
    rv, mv = q.check(pre, post, z3.Not(popped), w2 > 0)
    if rv != 'sat':
        return {'status': 'inconclusive', 'reason': 'vacuity witness'}
    base = {'queries': q.n, 'solver_s': q.t, 'evaluations': q.n + vec, 'nontrivial': q.n + vec,
            'sample': {'w': mval(mv, w), 'p': mval(mv, p), 'b': mval(mv, b)},
            'extra': {'validation_vectors': vec, 'range': 'all w >= 1, p >= 1, b >= 1 (mathematical ints); one loop iteration (inductive step)'}}
    if r == 'unsat':
        return dict(base, status='confirmed')
    if r == 'sat':
        kw = {'w': min(mval(m, w), 1 << 20), 'p': min(mval(m, p), 1 << 20), 'b': min(mval(m, b), 1 << 20), 'stderr': False}
        return dict(base, status='cex', kwargs=kw, reason='z3 model')
    return dict(base, status='inconclusive', reason='solver ' + r)


OBLIGATIONS.append(
    Ob('flush_kernel', flush_iter_concrete, engine='B', solver=flush_kernel,
       functions=[CH.SSHChannel._flush_send_buf],
       bounds='one iteration of the send loop from any state with window >= 1, peer packet size >= 1, head buffer >= 1 byte: all sizes (LIA); '
              'progress >= 1 byte per iteration bounds the loop'))
