"""C01 - Encrypted transport is tamper-evident in both directions"""

from asyncssh import connection as C
from asyncssh import encryption as E
from asyncssh import mac as M
from asyncssh import compression as CMP
from asyncssh.misc import DisconnectError, MACError, ProtocolError, CompressionError
from asyncssh.packet import SSHPacket, String, Byte

from vf.core import Ob, R, B
from vf.rt import assume, pick, conc, cb, notrace
from vf.stubs import mkconn, MiniLoop
from props.connlib import instrument, deliver

ASSUMPTIONS = [
    'the real negotiable ciphers and MACs (PyCA / hashlib / hmac, C code) are executed concretely on a concrete three-packet stream; what the '
    'solver chooses is the tampering: operation, packet index, byte position, xor mask, replacement length-field value. The cryptographic strength '
    'of the primitives is assumed, not examined; what is checked is that asyncssh feeds them the right bytes/sequence numbers and acts on the verdict',
    'a sender-side real SSHConnection.send_packet produces the legitimate stream; a receiver-side real connection with the mirrored keys consumes the tampered one',
    'tampering is limited to one operation per run (pairs in the thorough tier); streams of three packets with payloads straddling the block size',
    'compression: zlib (C) runs concretely; only "decompression sees verified packets only, in order" is observable here',
]

ENC = [a for a in E.get_encryption_algs()]
MACS = [a for a in M.get_mac_algs()]

# (cipher, mac, compression) combinations: one per distinct (encryption class, etm, mac family/size) in the quick tier
QUICK = [
    (b'chacha20-poly1305@openssh.com', b'', b'none'),
    (b'aes128-gcm@openssh.com', b'', b'none'),
    (b'aes128-ctr', b'hmac-sha2-256', b'none'),
    (b'aes256-ctr', b'hmac-sha2-256-etm@openssh.com', b'none'),
    (b'aes128-cbc', b'hmac-sha1-96', b'none'),
    (b'3des-cbc', b'umac-64-etm@openssh.com', b'none'),
    (b'aes128-ctr', b'umac-128@openssh.com', b'zlib@openssh.com'),
    (b'aes192-ctr', b'hmac-sha2-512-etm@openssh.com', b'zlib'),
]
ALL = [(e, (m if E.encryption_needs_mac(e) else b''), b'none') for e in ENC for m in (MACS if E.encryption_needs_mac(e) else [b''])]

PAYLOADS = [Byte(2) + String(b'first'), Byte(2) + String(b'second-packet-0123456789'), Byte(2) + String(b'3')]


def _pair(enc, mac, cmp_alg, seq0=3):
    """sender (client role) and receiver (server role) sharing keys for the client->server direction"""
    ks, ivs, bs, mks, mhs, etm = E.get_encryption_params(enc, mac)
    key, iv, mkey = bytes(range(1, ks + 1)), bytes(range(101, 101 + ivs)), bytes((201 + i) % 256 for i in range(mks))
    tx = mkconn(False)
    wire = []
    tx._send = lambda data: wire.append(bytes(data))
    tx._kex_complete = tx._auth_complete = True
    tx._send_encryption = E.get_encryption(enc, key, iv, mac, mkey, etm)
    tx._send_enchdrlen = 1 if etm else 5
    tx._send_blocksize = max(8, bs)
    tx._send_seq = seq0
    tx._compressor = CMP.get_compressor(cmp_alg)
    rx = mkconn(True)
    out = instrument(rx)
    rx._recv_encryption = E.get_encryption(enc, key, iv, mac, mkey, etm)
    rx._recv_blocksize = max(8, bs)
    rx._recv_macsize = mhs
    rx._recv_seq = seq0
    rx._auth_complete = rx._kex_complete = True
    rx._decompressor = CMP.get_decompressor(cmp_alg)
    rx._recv_handler = rx._recv_pkthdr
    rx._send = lambda data: None
    got = []
    rx._packet_handlers = dict(rx._packet_handlers)
    rx._packet_handlers[2] = lambda self, t, i, p: got.append(Byte(2) + p.get_remaining_payload())
    return tx, wire, rx, out, got, mhs, etm


OPS = ['none', 'flip', 'trunc', 'drop', 'dup', 'swap', 'lenfield', 'splice', 'append', 'lenxor']


def _run(combo, op, pkt, pos, mask, val, cut=False):
    enc, mac, cmp_alg = combo
    tx, wire, rx, out, got, mhs, etm = _pair(enc, mac, cmp_alg)
    for p in PAYLOADS:
        tx.send_packet(p[0], p[1:])
    pk = [w for w in wire]
    # IGNOREs inserted by the sender before type > 49 packets do not occur (all payloads are IGNORE themselves)
    if len(pk) != 3:
        return None
    first_bad = None
    stream = None
    if op == 'none':
        stream = b''.join(pk)
    elif op == 'flip':
        s = bytearray(b''.join(pk))
        pos = pos % len(s)
        s[pos] ^= mask
        stream = bytes(s)
        first_bad = 0 if pos < len(pk[0]) else 1 if pos < len(pk[0]) + len(pk[1]) else 2
    elif op == 'trunc':
        s = b''.join(pk)
        pos = pos % len(s)
        stream = s[:pos]
        first_bad = 0 if pos < len(pk[0]) else 1 if pos < len(pk[0]) + len(pk[1]) else 2
    elif op == 'drop':
        stream = b''.join(p for i, p in enumerate(pk) if i != pkt)
        first_bad = pkt
    elif op == 'dup':
        stream = b''.join(pk[:pkt + 1]) + pk[pkt] + b''.join(pk[pkt + 1:])
        first_bad = pkt + 1
    elif op == 'swap':
        a, b = (0, 1) if pkt == 0 else (1, 2) if pkt == 1 else (0, 2)
        q = list(pk)
        q[a], q[b] = q[b], q[a]
        stream = b''.join(q)
        first_bad = a
    elif op == 'lenfield':
        q = list(pk)
        q[pkt] = val.to_bytes(4, 'big') + q[pkt][4:]
        stream = b''.join(q)
        first_bad = pkt
    elif op == 'splice':
        stream = b''.join(pk[:pkt]) + pk[2 - pkt if pkt != 1 else 0] + b''.join(pk[pkt:])
        first_bad = pkt
    elif op == 'append':
        stream = b''.join(pk) + bytes([mask]) * (pos % 40 + 1)
        first_bad = 3
    elif op == 'lenxor':
        # for stream ciphers (CTR, ChaCha20 length stream) and clear-text lengths (ETM, GCM) this makes the receiver see length = val
        q = list(pk)
        true_len = len(q[pkt]) - 4 - mhs
        x = (true_len ^ val).to_bytes(4, 'big')
        q[pkt] = bytes(a ^ b for a, b in zip(q[pkt][:4], x)) + q[pkt][4:]
        stream = b''.join(q)
        first_bad = pkt if val != true_len else None
    if cut and first_bad is not None and first_bad < 3:
        # split delivery: everything up to the end of the first affected packet in one data_received call, each later packet in its own
        bounds = [len(pk[0]), len(pk[0]) + len(pk[1]), len(pk[0]) + len(pk[1]) + len(pk[2])]
        marks = [b for b in bounds[first_bad:] if b < len(stream)]
        prev = 0
        for b in marks:
            deliver(rx, stream[prev:b])
            prev = b
        deliver(rx, stream[prev:])
    else:
        deliver(rx, stream)
    return got, out, first_bad, (rx._recv_seq - 3) & 0xffffffff


def tamper(ci: int, op: int, pkt: int, pos: int, mask: int, vi: int, cut: bool, tier_all: bool) -> bool:
    """For each negotiable (cipher, MAC, compression) combination: after one
    tampering operation on the encrypted three-packet stream (bit flips at any
    byte, truncation anywhere, drop / duplicate / swap / splice of whole
    packets, a rewritten length field, appended bytes) the receiver delivers
    exactly the packets before the first affected one, intact and in order,
    then ends with an integrity/protocol error or waits for more bytes; it
    never delivers anything else, never accepts (advances the receive sequence
    number for) a packet that is not one of those, also when the bytes after
    the affected packet arrive in later data_received calls (cut), and never
    raises into the loop."""
    combos = ALL if tier_all else QUICK
    combo = combos[ci % len(combos)]
    opn = pick(OPS, op)
    # only the parameters an operation uses are left for the solver to choose
    pkt = conc(pkt, 0, 2) if opn in ('drop', 'dup', 'swap', 'lenfield', 'splice', 'lenxor') else 0
    pos = conc(pos, 0, 199) if opn in ('flip', 'trunc') else conc(pos, 0, 3) * 13 if opn == 'append' else 0
    mask = pick([0x01, 0x80, 0xff], mask) if opn in ('flip', 'append') else 1
    val = pick([0, 1, 3, 4, 8, 12, 13, 28, 0x7fffffff, 0xffffffff], vi) if opn in ('lenfield', 'lenxor') else 0
    cut = bool(cut) if opn != 'none' else False
    with notrace():
        r = _run(combo, opn, pkt, pos, mask, val, cut)
    if r is None:
        return False
    got, out, first_bad, accepted = r
    if out.internal:
        return False                          # an unexpected exception type while handling hostile bytes
    if opn == 'none':
        return got == PAYLOADS and not out.closed
    if len(out.closed) > 1 and not cut:
        return False                          # (with split delivery the stuck parser reports the same failure again for every later chunk)
    if [e for e in out.closed if not isinstance(e, DisconnectError)]:
        return False
    # packets that passed the integrity check (receive sequence number advanced) = packets delivered: nothing forged is ever accepted
    if accepted != len(got):
        return False
    # delivered packets: a prefix of the legitimate list, strictly before the first affected packet
    n = len(got)
    if got != PAYLOADS[:n]:
        return False
    if first_bad is not None and n > first_bad:
        return False
    # everything before the first affected packet was delivered intact
    if first_bad is not None and n < min(first_bad, 3):
        return False
    return True


def seq_wrap(which: int, s0: int) -> bool:
    """An untampered stream is delivered intact also when the 32-bit sequence
    numbers wrap in the middle of it (sender and receiver advance in step)."""
    combo = QUICK[which % len(QUICK)]
    seq0 = pick([0xfffffffd, 0xfffffffe, 0xffffffff, 0], s0)
    with notrace():
        tx, wire, rx, out, got, mhs, etm = _pair(combo[0], combo[1], combo[2], seq0)
        for p in PAYLOADS:
            tx.send_packet(p[0], p[1:])
        deliver(rx, b''.join(wire))
    return got == PAYLOADS and not out.closed and not out.internal and rx._recv_seq == (seq0 + 3) & 0xffffffff and \
        tx._send_seq == rx._recv_seq


def nonce_discipline(seq: int, which: int) -> bool:
    """The sequence number is bound into every MAC / AEAD nonce: a packet
    protected under sequence number s does not verify under s' != s (for
    ChaCha20-Poly1305 and every MAC class; AES-GCM binds its own invocation
    counter instead: a replayed packet fails because the counter moved on)."""
    combo = QUICK[which % len(QUICK)]
    enc, mac, _ = combo
    ks, ivs, bs, mks, mhs, etm = E.get_encryption_params(enc, mac)
    key, iv, mkey = bytes(range(1, ks + 1)), bytes(range(101, 101 + ivs)), bytes((201 + i) % 256 for i in range(mks))
    seq = pick([0, 1, 2, 0x7fffffff, 0xfffffffe, 0xffffffff], seq)
    with notrace():
        a = E.get_encryption(enc, key, iv, mac, mkey, etm)
        b = E.get_encryption(enc, key, iv, mac, mkey, etm)
        n = 32 if etm else 28
        hdr = n.to_bytes(4, 'big')
        body = (bytes([4]) + b'payload-xyz-0123456789abcdefghijklmnop')[:n - 4] + bytes(4)
        ct, tag = a.encrypt_packet(seq, hdr, body)
        hl = 4
        first, rest = ct[:max(8, bs)], ct[max(8, bs):]
        other = (seq + 1) & 0xffffffff
        good = b.decrypt_packet(seq, b.decrypt_header(seq, first, hl)[0], rest, hl, tag)
        c = E.get_encryption(enc, key, iv, mac, mkey, etm)
        bad = c.decrypt_packet(other, c.decrypt_header(other, first, hl)[0], rest, hl, tag)
        # replay of the same packet on the receiver that already consumed it
        replay = b.decrypt_packet(seq, b.decrypt_header(seq, first, hl)[0], rest, hl, tag) \
            if 'gcm' in enc.decode() else None
    if good != body:
        return False
    if 'gcm' in enc.decode():
        return replay is None
    return bad is None


OBLIGATIONS = [
    Ob('tamper', tamper,
       sym=dict(pkt=R(0, 2), pos=R(0, 199), mask=R(0, 2), vi=R(0, 9), cut=B),
       shards=dict(ci=list(range(len(QUICK))), op=list(range(len(OPS))), tier_all=[False]),
       thorough_shards=dict(ci=list(range(len(ALL))), op=list(range(len(OPS))), tier_all=[True]),
       timeout=250, thorough_timeout=600,
       functions=[C.SSHConnection.send_packet, C.SSHConnection._recv_data, C.SSHConnection._recv_pkthdr, C.SSHConnection._recv_packet,
                  C.SSHConnection._finish_recv_packet, E.BasicEncryption.decrypt_packet, E.ETMEncryption.decrypt_packet,
                  E.GCMEncryption.decrypt_packet, E.ChachaEncryption.decrypt_packet, E.ChachaEncryption.decrypt_header,
                  M._HMAC.verify, M._UMAC.verify],
       bounds='8 representative (cipher, MAC, compression) combinations in quick, all %d registered (cipher, MAC) pairs in thorough; three packets; one operation from '
              '{bit flip at every byte with masks 0x01/0x80/0xff, truncation at every byte, drop, duplicate, swap, splice, length field := 10 values (raw, and xor-ed so that a stream cipher / clear-text length decodes to the value), 1..40 appended bytes} x {one delivery, split delivery after the affected packet}' % len(ALL)),
    Ob('seq_wrap', seq_wrap, sym=dict(s0=R(0, 3)), shards=dict(which=list(range(len(QUICK)))), timeout=120,
       functions=[C.SSHConnection.send_packet, C.SSHConnection._finish_recv_packet],
       bounds='8 combinations x first sequence number in {2^32-3, 2^32-2, 2^32-1, 0}'),
    Ob('nonce_discipline', nonce_discipline, sym=dict(seq=R(0, 5)), shards=dict(which=list(range(len(QUICK)))), timeout=120,
       functions=[E.BasicEncryption.encrypt_packet, E.ETMEncryption.encrypt_packet, E.GCMEncryption.encrypt_packet,
                  E.ChachaEncryption.encrypt_packet, M._HMAC.sign, M._UMAC.sign],
       bounds='8 combinations x sequence numbers {0,1,2,2^31-1,2^32-2,2^32-1}: decrypt under seq+1 fails; GCM replay fails'),
]

MANIFEST = dict(
    engines='A',
    technique='solver-enumerated tampering (CrossHair/z3 chooses operation, position, mask) of a concrete stream through the real send path, real ciphers/MACs and the real receive path',
    text='For each negotiable cipher/MAC combination (8 representative ones on every change, all registered pairs in the thorough tier) a three-packet '
         'stream produced by the real send_packet with the real cipher objects is tampered with by one solver-chosen operation - a bit flip at any '
         'byte (length field, body, padding, tag), truncation at any byte, dropping, duplicating, swapping or splicing whole packets, rewriting a length '
         'field, appending bytes - and fed to the real receive path: exactly the packets before the first affected one are delivered, intact and in '
         'order, the connection then ends with a MAC/protocol error or stalls, and nothing else ever reaches a handler; packets do not verify under a '
         'different sequence number; the same holds when the bytes after the affected packet arrive in later data_received calls, and the number of packets that pass the integrity check equals the number delivered.',
    note='Because the primitives are C code the stream is concrete and the solver only ranges over the tampering space (every path is then run natively): '
         'this is exhaustive within the stated operations, not a proof about the primitives. Multi-operation tampering beyond pairs and streams longer '
         'than three packets are outside. Trusted: PyCA/hashlib/hmac/zlib, CrossHair, z3, the oracle in props/C01.py.')
