"""C11 - Re-keying is invisible to applications and really changes keys"""

from asyncssh import connection as C
from asyncssh import kex as K
from asyncssh.misc import ProtocolError
from asyncssh.packet import SSHPacket, UInt32, String, Byte, Boolean, NameList

from vf.core import Ob, R, B
from vf.rt import assume, pick, conc, Fuel
from vf.stubs import mkconn, MiniLoop, AsyncioShim
from props.connlib import frame, pframe, instrument, deliver

ASSUMPTIONS = [
    'the key exchange method object is a stub (start() does nothing; compute_key is a free, injective function of (k, h, letter, session id, '
    'length)); ciphers are tagged identity objects remembering the keys they were built from - "fresh keys" means: built from the new (k, h)',
    'algorithm negotiation inside _process_kexinit is stubbed to fixed names (C03 covers negotiation); the peer\'s KEXINIT/NEWKEYS are injected as '
    'plaintext frames through the real receive path',
    'bounded histories: <= 6 application sends, <= 2 exchanges; rekey thresholds {1 byte, 40 bytes, never}',
]


class TagCipher:
    def __init__(self, *key):
        self.key = key

    def decrypt_header(self, seq, p, n):
        return p, p[:n]

    def decrypt_packet(self, seq, first, rest, n, mac):
        return first[n:] + rest

    def encrypt_packet(self, seq, hdr, pkt):
        return hdr + pkt, b''


class FakeKex:
    algorithm = b'k1'

    def __init__(self, log):
        self.log = log

    async def start(self):
        self.log.append('kex-start')

    def compute_key(self, k, h, x, session_id, keylen):
        return (b'KEY', k, h, x, session_id, keylen)

    def process_packet(self, *a):
        return True

    def log_received_packet(self, *a, **k):
        pass


class Env:
    """installs the stubs of the kex/cipher layer in asyncssh.connection"""

    def __init__(self, loop, log):
        self.loop, self.log = loop, log

    def __enter__(self):
        self.saved = {n: getattr(C, n) for n in ('asyncio', 'get_kex', 'expand_kex_algs', 'encryption_needs_mac',
                                                  'get_encryption_params', 'get_compression_params', 'get_encryption',
                                                  'get_compressor', 'get_decompressor')}
        C.asyncio = AsyncioShim(self.loop)
        C.get_kex = lambda conn, alg: FakeKex(self.log)
        C.expand_kex_algs = lambda algs, mechs, hk: list(algs)
        C.encryption_needs_mac = lambda alg: True
        C.get_encryption_params = lambda enc, mac: (16, 8, 16, 20, 20, False)
        C.get_compression_params = lambda alg: False
        C.get_encryption = lambda enc, key, iv, mac, mackey, etm: TagCipher(key, iv, mackey)
        C.get_compressor = lambda alg: None
        C.get_decompressor = lambda alg: None
        return self

    def __exit__(self, *a):
        for n, v in self.saved.items():
            setattr(C, n, v)


def _conn(server, loop, rekey_bytes=1 << 30):
    conn = mkconn(server, loop=loop)
    out = instrument(conn)
    wire = []
    conn._send = lambda data: wire.append((data[5], bytes(data[6:])))      # plaintext framing: type at [5]
    out.wire = wire
    conn._recv_handler = conn._recv_pkthdr
    conn._send_encryption = TagCipher('old-send')
    conn._recv_encryption = TagCipher('old-recv')
    conn._session_id = b'SID0'
    conn._kex_complete = True
    conn._auth_complete = True
    conn._rekey_bytes = rekey_bytes
    conn._kex_algs = [b'k1']
    conn._enc_algs = [b'e1']
    conn._mac_algs = [b'm1']
    conn._cmp_algs = [b'none']
    conn._server_host_key_algs = [b'h1']
    conn._enc_alg_cs = conn._enc_alg_sc = b'e1'
    conn._mac_alg_cs = conn._mac_alg_sc = b'm1'
    conn._cmp_alg_cs = conn._cmp_alg_sc = b'none'
    conn.choose_server_host_key = lambda algs: True
    return conn, out


def _peer_kexinit(conn):
    body = bytes(16) + NameList([b'k1']) + NameList([b'h1']) + NameList([b'e1']) * 2 + \
        NameList([b'm1']) * 2 + NameList([b'none']) * 2 + NameList([]) * 2 + Boolean(False) + UInt32(0)
    deliver(conn, pframe(conn, Byte(20) + body))


class _Clock:
    def __init__(self, now):
        self.now = now

    def monotonic(self):
        return self.now

    def time(self):
        return self.now


def send_gate(server: bool, t: int, kexc: bool, authc: bool, authp: bool, used: int, timed: bool, now: int) -> bool:
    """send_packet, one step: while an exchange is in progress nothing but
    transport-control and key-exchange messages is written - everything else
    is appended to the deferred list unchanged, exactly once; with the
    exchange complete the packet is written (or deferred by the auth gate)."""
    loop = MiniLoop()
    conn, out = _conn(server, loop, 2)
    conn._kex_complete = kexc
    conn._auth_complete = authc
    conn._auth_in_progress = authp
    conn._rekey_bytes_sent = used
    conn._rekey_seconds = 10 if timed else 0       # time limit armed: next rekey due at t = 5 on the (symbolic) clock
    conn._rekey_time = 5
    conn._send_kexinit = lambda: (out.wire.append(('KI', b'')), setattr(conn, '_kex_complete', False))
    pre_def = list(conn._deferred_packets)
    saved_time = C.time
    C.time = _Clock(now)
    try:
        conn.send_packet(t, b'PAYLOAD')
    finally:
        C.time = saved_time
    written = [w[0] for w in out.wire]
    deferred = conn._deferred_packets[len(pre_def):]
    rekey = kexc and authc and (used >= conn._rekey_bytes or (timed and now >= 5))
    in_kex = (not kexc) or rekey
    if rekey and written[:1] != ['KI']:
        return False                               # threshold reached: KEXINIT goes first
    if not rekey and 'KI' in written:
        return False
    body = [w for w in written if w != 'KI']
    forbidden_in_kex = t in (4, 5, 6) or t > 49
    if in_kex and forbidden_in_kex:
        return body == [] and deferred == [(t, (b'PAYLOAD',))]
    if t > 79 and not authc:
        return body == [] and deferred == [(t, (b'PAYLOAD',))]
    if t == 53 and not (authp or authc):
        return body == [] and deferred == [(t, (b'PAYLOAD',))]
    # written: exactly once (an IGNORE may precede post-kex packets when encrypting)
    return [w for w in body if w != 2] == ([t] if t != 2 else []) and body.count(t) == 1 and deferred == []


EV = ['send94', 'send80', 'rekey', 'newkeys', 'peer_kexinit', 'peer_newkeys']


def defer_order(server: bool, rb: int, nev: int, e0: int, e1: int, e2: int, e3: int, e4: int, e5: int, e6: int) -> bool:
    """Histories of up to 7 events from {application send (channel data /
    global request), local rekey start, our NEWKEYS, peer KEXINIT, peer
    NEWKEYS}: application packets reach the wire exactly once and in call
    order; none is written between our KEXINIT and our NEWKEYS; at the end,
    whatever is not yet written is still queued in order."""
    loop = MiniLoop()
    log = []
    rekey_bytes = pick([1, 40, 1 << 30], rb)
    with Env(loop, log):
        conn, out = _conn(server, loop, rekey_bytes)
        sent = []
        n = 0
        for e in (e0, e1, e2, e3, e4, e5, e6)[:nev]:
            ev = pick(EV, e)
            in_kex = not conn._kex_complete
            if ev == 'send94' or ev == 'send80':
                n += 1
                marker = bytes([64 + n])
                t = 94 if ev == 'send94' else 80
                sent.append((t, marker))
                conn.send_packet(t, marker)
            elif ev == 'rekey':
                if in_kex:
                    continue
                conn._send_kexinit()
                conn._kexinit_sent = True
            elif ev == 'peer_kexinit':
                if conn._kex is not None:
                    continue
                _peer_kexinit(conn)
                loop.run(30)
            elif ev == 'newkeys':
                if conn._kex is None:
                    continue
                conn.send_newkeys(b'k%d' % n, b'h%d' % n)
            else:
                if conn._next_recv_encryption is None:
                    continue
                deliver(conn, pframe(conn, Byte(21)))
            loop.run(30)
            if out.closed or out.internal or loop.exceptions:
                return False
        wire = out.wire
        # 1. nothing but transport/kex traffic between our KEXINIT and our NEWKEYS
        inside = False
        for t, body in wire:
            if t == 20:
                inside = True
            elif t == 21:
                inside = False
            elif inside and (t > 49 or t in (4, 5, 6)):
                return False
        # 2. application packets: exactly once, in order; the rest still queued in order
        app = [(t, body[:1]) for t, body in wire if t in (94, 80)]
        queued = [(t, args[0]) for t, args in conn._deferred_packets if t in (94, 80)]
        if app + queued != sent:
            return False
        if conn._kex_complete and queued:
            return False
        return True


def newkeys_state(server: bool, first: bool) -> bool:
    """send_newkeys / peer NEWKEYS: the session id is fixed by the first
    exchange; our send keys switch at our NEWKEYS, receive keys are staged
    until the peer's NEWKEYS; both are derived from the *new* (k, h), the
    *original* session id and the letters RFC 4253 assigns to each role."""
    loop = MiniLoop()
    log = []
    with Env(loop, log):
        conn, out = _conn(server, loop)
        if first:
            conn._session_id = b''
            conn._auth_complete = False
        conn._kex = FakeKex(log)
        conn._kex_complete = False
        old_send, old_recv = conn._send_encryption, conn._recv_encryption
        conn.send_newkeys(b'KNEW', b'HNEW')
        sid = b'HNEW' if first else b'SID0'
        if conn._session_id != sid or conn._kex is not None or not conn._kex_complete:
            return False
        if conn._recv_encryption is not old_recv or conn._send_encryption is old_send:
            return False                          # receive side must still use the old keys
        send_letters = (b'D', b'B', b'F') if server else (b'C', b'A', b'E')
        recv_letters = (b'C', b'A', b'E') if server else (b'D', b'B', b'F')
        lens = (16, 8, 20)

        def want(letters):
            return tuple((b'KEY', b'KNEW', b'HNEW', x, sid, n) for x, n in zip(letters, lens))

        if conn._send_encryption.key != want(send_letters):
            return False
        if conn._next_recv_encryption is None or conn._next_recv_encryption.key != want(recv_letters):
            return False
        if [w[0] for w in out.wire][:1] != [21]:
            return False
        staged = conn._next_recv_encryption
        deliver(conn, pframe(conn, Byte(21)))
        if out.closed or out.internal:
            return False
        if conn._recv_encryption is not staged or conn._next_recv_encryption is not None:
            return False
        # a second NEWKEYS without a new exchange is fatal
        deliver(conn, pframe(conn, Byte(21)))
        return len(out.closed) == 1 and isinstance(out.closed[0], ProtocolError) and conn._recv_encryption is staged


def kexinit_reply(server: bool, i0: int, i1: int, i2: int) -> bool:
    """Up to three consecutive exchanges started by us, by the peer, or by
    both at once: in each exchange we send exactly one KEXINIT, the exchange
    starts exactly once, and a peer KEXINIT during an exchange is fatal."""
    loop = MiniLoop()
    log = []
    with Env(loop, log):
        conn, out = _conn(server, loop)
        for who in (i0, i1, i2):
            before = len([w for w in out.wire if w[0] == 20])
            starts = log.count('kex-start')
            if who in (0, 2):                    # we initiate
                conn._send_kexinit()
                conn._kexinit_sent = True
            if who == 0:
                # peer answers
                _peer_kexinit(conn)
            elif who == 1:
                _peer_kexinit(conn)
            else:
                _peer_kexinit(conn)              # simultaneous: peer's KEXINIT crosses ours
            loop.run(30)
            if out.closed or out.internal or loop.exceptions:
                return False
            if len([w for w in out.wire if w[0] == 20]) - before != 1:
                return False                     # exactly one KEXINIT from us per exchange
            if log.count('kex-start') - starts != 1 or conn._kex is None:
                return False
            conn.send_newkeys(b'k', b'h')
            deliver(conn, pframe(conn, Byte(21)))
            if out.closed or out.internal or conn._kex is not None or not conn._kex_complete:
                return False
        # and a KEXINIT while one is in progress is fatal
        _peer_kexinit(conn)
        loop.run(30)
        _peer_kexinit(conn)
        loop.run(30)
        return len(out.closed) == 1 and isinstance(out.closed[0], ProtocolError)


OBLIGATIONS = [
    Ob('send_gate', send_gate,
       sym=dict(t=R(0, 255), kexc=B, authc=B, authp=B, used=R(0, 3), timed=B, now=R(0, 9)),
       shards=dict(server=[True, False], timed=[True, False]), timeout=300, pre=[],
       functions=[C.SSHConnection.send_packet],
       bounds='every packet type 0..255 x {exchange complete, authenticated, auth in progress} x bytes-sent below/at/above the rekey threshold (threshold 2: used in 0..3) x time limit armed or not with a symbolic clock 0..9 around the due time 5'),
    Ob('defer_order', defer_order,
       sym=dict(e0=R(0, 5), e1=R(0, 5), e2=R(0, 5), e3=R(0, 5), e4=R(0, 5), e5=R(0, 5), e6=R(0, 5)),
       shards=dict(server=[True], rb=[0, 1, 2], nev=[5], e0=[0, 2, 4], e1=[0, 2, 3, 4], e5=[0], e6=[0]),
       thorough_shards=dict(server=[True, False], rb=[0, 1, 2], nev=[6], e0=[0, 2, 4], e1=[0, 2, 3, 4], e2=[0, 2, 3, 4, 5], e6=[0]),
       timeout=250, thorough_timeout=900,
       functions=[C.SSHConnection.send_packet, C.SSHConnection._send_deferred_packets, C.SSHConnection._send_kexinit,
                  C.SSHConnection.send_newkeys, C.SSHConnection._process_kexinit, C.SSHConnection._process_newkeys],
       bounds='5 (thorough 6) events from {send channel data, send global request, local rekey, our NEWKEYS, peer KEXINIT, peer NEWKEYS}; rekey threshold 1 byte / 40 bytes / never'),
    Ob('newkeys_state', newkeys_state, sym=dict(first=B), shards=dict(server=[True, False]), timeout=90,
       functions=[C.SSHConnection.send_newkeys, C.SSHConnection._process_newkeys],
       bounds='first exchange or re-exchange, both roles'),
    Ob('kexinit_reply', kexinit_reply, sym=dict(i0=R(0, 2), i1=R(0, 2), i2=R(0, 2)), shards=dict(server=[True, False]), timeout=150,
       functions=[C.SSHConnection._process_kexinit, C.SSHConnection._send_kexinit, C.SSHConnection.send_newkeys],
       bounds='three consecutive exchanges, each started by us / the peer / both at once'),
]


MANIFEST = dict(
    engines='A',
    technique='bounded symbolic execution (CrossHair/z3) of the real send gate, deferred-packet queue and NEWKEYS handling over symbolic event histories with stubbed key exchange and tagged ciphers',
    text='Bounded symbolic verification of re-keying: one send_packet step for every packet type and gate state (only transport/kex messages '
         'are written during an exchange, the rest is queued unchanged, KEXINIT first when the threshold is reached); histories of 5-6 events from '
         '{application sends, local rekey, our NEWKEYS, peer KEXINIT, peer NEWKEYS} with rekey thresholds down to one packet - application packets reach '
         'the wire exactly once and in order, none between our KEXINIT and NEWKEYS; NEWKEYS keeps the session id, switches send keys, stages receive keys '
         'until the peer\'s NEWKEYS, derives both from the new (k,h) with the right letters; three consecutive exchanges with any initiator each get '
         'exactly one KEXINIT from us.',
    note='Key exchange maths, negotiation and real ciphers are stubbed (C02/C03/C01); the time limit is driven with a symbolic clock in the one-step gate obligation only; '
         'in-flight channel data on a real loop is reduced to the order of send_packet calls. Trusted: CrossHair, z3, stubs and oracles in props/C11.py.')
