"""C15 - Keys survive every export/import path (codec layer; interop by independent references only)"""

import hashlib

import asyncssh
from asyncssh import asn1 as A
from asyncssh import pbe as PBE
from asyncssh import public_key as PK

from vf.core import Ob, R, B
from vf.rt import assume, pick, conc, cb, notrace

ASSUMPTIONS = [
    'key material lives in PyCA (C) objects: keys are concrete (one RSA-1024, ECDSA nistp256 and Ed25519 key generated once per process); what the '
    'solver chooses is the export path: format, cipher, hash, PBE version, passphrase, comment - each path is then executed natively',
    'OpenSSH-format *encrypted* private keys need the bcrypt module, which is absent in this sandbox: not covered (unencrypted OpenSSH format is)',
    'interoperability with OpenSSH / PyCA loaders is NOT run; the only independent references are: an RFC 7292 appendix B PKCS#12 KDF and DER '
    'canonical forms written in the harness',
]

_KEYS = {}


def _key(kind):
    if kind not in _KEYS:
        if kind == 'rsa':
            _KEYS[kind] = asyncssh.generate_private_key('ssh-rsa', key_size=1024)
        elif kind == 'ecdsa':
            _KEYS[kind] = asyncssh.generate_private_key('ecdsa-sha2-nistp256')
        else:
            _KEYS[kind] = asyncssh.generate_private_key('ssh-ed25519')
    return _KEYS[kind]


KINDS = ['rsa', 'ecdsa', 'ed25519']
COMMENTS = [None, b'plain', b'with space', b'"quoted"', b'say "hi"', b'"', b'tr\xc3\xa9ma', b'a\\b']


def public_roundtrip(kind: int, fmt: int, ci: int) -> bool:
    """export_public_key(format) -> import_public_key yields an equal key with
    the same comment (for formats that carry one), for comments of any bytes
    including quotes."""
    k = pick(KINDS, kind)
    fmts = ['openssh', 'rfc4716', 'pkcs8-der', 'pkcs8-pem'] + (['pkcs1-der', 'pkcs1-pem'] if k == 'rsa' else [])
    f = fmts[fmt % len(fmts)]
    comment = pick(COMMENTS, ci)
    with notrace():
        key = _key(k)
        key.set_comment(comment)
        data = key.export_public_key(f)
        back = asyncssh.import_public_key(data)
        ok = back == key.convert_to_public() and back.public_data == key.public_data
        if f in ('openssh', 'rfc4716'):
            ok = ok and back.get_comment_bytes() == comment
        key.set_comment(None)
    return ok


PRIV = [('openssh', None, None, None, None), ('pkcs1-der', None, None, None, None), ('pkcs1-pem', None, None, None, None),
        ('pkcs8-der', None, None, None, None), ('pkcs8-pem', None, None, None, None)]
for _c in ('aes128-cbc', 'aes192-cbc', 'aes256-cbc', 'des-cbc', 'des3-cbc'):
    PRIV.append(('pkcs1-pem', 'pw', _c, None, None))
for _c, _h in (('des-cbc', 'md5'), ('des-cbc', 'sha1'), ('des2-cbc', 'sha1'), ('des3-cbc', 'sha1'), ('rc4-40', 'sha1'), ('rc4-128', 'sha1')):
    PRIV.append(('pkcs8-pem', 'pw', _c, _h, 1))
    PRIV.append(('pkcs8-der', 'pw', _c, _h, 1))
for _c in ('aes128-cbc', 'aes256-cbc', 'blowfish-cbc', 'cast128-cbc', 'des-cbc', 'des3-cbc'):
    for _h in ('sha1', 'sha256', 'sha512'):
        PRIV.append(('pkcs8-pem', 'pw', _c, _h, 2))


def private_roundtrip(kind: int, pi: int, pwi: int, ci: int) -> bool:
    """export_private_key(format, cipher, hash, PBE version, passphrase) ->
    import_private_key yields an equal key (same public half, same comment
    where the format carries one); a wrong or missing passphrase is rejected
    with KeyEncryptionError / KeyImportError."""
    k = pick(KINDS, kind)
    fmt, pw, cipher, hname, ver = PRIV[pi % len(PRIV)]
    if fmt.startswith('pkcs1') and k == 'ed25519':
        return True                      # PKCS#1 is not defined for EdDSA keys
    passphrase = pick(['pw', 'p\xe4ss phrase', ''], pwi) if pw else None
    if passphrase == '':
        passphrase = 'x'
    comment = pick(COMMENTS, ci) if fmt == 'openssh' else None
    with notrace():
        key = _key(k)
        key.set_comment(comment)
        kwargs = {}
        if passphrase:
            kwargs = dict(passphrase=passphrase, cipher_name=cipher)
            if hname:
                kwargs.update(hash_name=hname, pbe_version=ver)
        try:
            data = key.export_private_key(fmt, **kwargs)
        except asyncssh.KeyEncryptionError:
            key.set_comment(None)
            return k != 'x'              # unsupported cipher in this build is reported, not silently ignored
        back = asyncssh.import_private_key(data, passphrase)
        ok = back == key and back.public_data == key.public_data
        if fmt == 'openssh':
            ok = ok and back.get_comment_bytes() == comment
        if passphrase:
            for bad in (passphrase + 'x', None):
                try:
                    other = asyncssh.import_private_key(data, bad)
                    # a wrong passphrase may only "succeed" if it yields garbage that still is not the key
                    ok = ok and False
                except (asyncssh.KeyEncryptionError, asyncssh.KeyImportError):
                    pass
        key.set_comment(None)
    return ok


PYCA_CIPHERS = ['aes128-cbc', 'aes256-cbc', 'des3-cbc']
PYCA_V1 = [('des3-cbc', 'sha1'), ('rc4-128', 'sha1'), ('des-cbc', 'md5')]      # PBES1 / PKCS#12 schemes PyCA can read


def pbes1_interop(kind: int, si: int, der: bool, pwi: int) -> bool:
    """PKCS#8 exports under the PBES1 / PKCS#12 password schemes (whose key
    derivation takes the passphrase as UTF-16BE resp. raw bytes) are readable
    by PyCA cryptography with the same passphrase."""
    from cryptography.hazmat.primitives import serialization as ser
    import warnings
    k = pick(KINDS, kind)
    cipher, hname = pick(PYCA_V1, si)
    passphrase = pick(['pw', 'p\xe4ss phrase', 'x'], pwi)
    with notrace():
        key = _key(k)
        fmt = 'pkcs8-der' if der else 'pkcs8-pem'
        with warnings.catch_warnings():
            warnings.simplefilter('ignore')
            data = key.export_private_key(fmt, passphrase=passphrase, cipher_name=cipher, hash_name=hname, pbe_version=1)
            load = ser.load_der_private_key if der else ser.load_pem_private_key
            try:
                other = load(data, passphrase.encode('utf-8'))
            except Exception:
                return False
        pub = other.public_key().public_bytes(ser.Encoding.OpenSSH, ser.PublicFormat.OpenSSH)
        return asyncssh.import_public_key(pub).public_data == key.public_data

PYCA_HASHES = ['sha1', 'sha256', 'sha512']


def pbes2_interop(kind: int, ci: int, hi: int, der: bool, pwi: int) -> bool:
    """A PBES2-encrypted PKCS#8 export is readable by an independent
    implementation (PyCA cryptography / OpenSSL) with the same passphrase and
    yields the same key, for every PRF including the one that is encoded by
    omission (hmacWithSHA1, the ASN.1 default); and a PyCA-encrypted PKCS#8 key
    is imported by asyncssh."""
    from cryptography.hazmat.primitives import serialization as ser
    k = pick(KINDS, kind)
    cipher = pick(PYCA_CIPHERS, ci)
    hname = pick(PYCA_HASHES, hi)
    passphrase = pick(['pw', 'p\xe4ss phrase', 'x'], pwi)
    with notrace():
        key = _key(k)
        fmt = 'pkcs8-der' if der else 'pkcs8-pem'
        data = key.export_private_key(fmt, passphrase=passphrase, cipher_name=cipher, hash_name=hname, pbe_version=2)
        load = ser.load_der_private_key if der else ser.load_pem_private_key
        try:
            other = load(data, passphrase.encode('utf-8'))
        except Exception:
            return False                 # the independent decoder cannot read what asyncssh wrote
        pub = other.public_key().public_bytes(ser.Encoding.OpenSSH, ser.PublicFormat.OpenSSH)
        if asyncssh.import_public_key(pub).public_data != key.public_data:
            return False
        # and back: what PyCA writes (PBES2, its own choice of PRF/cipher) is imported by asyncssh
        enc = ser.BestAvailableEncryption(passphrase.encode('utf-8'))
        theirs = other.private_bytes(ser.Encoding.DER if der else ser.Encoding.PEM, ser.PrivateFormat.PKCS8, enc)
        back = asyncssh.import_private_key(theirs, passphrase)
        return back.public_data == key.public_data


EC_CURVES = ['ecdsa-sha2-nistp256', 'ecdsa-sha2-nistp384', 'ecdsa-sha2-nistp521']
_ECKEYS = {}


def ec_no_public(ci: int, pkcs8: bool, pem: bool) -> bool:
    """An EC private key file that omits the optional public point (RFC 5915
    publicKey [1], e.g. written by `openssl ec -no_public`) imports to the same
    key: same public half, and its exported public key is the real point."""
    alg = pick(EC_CURVES, ci)
    with notrace():
        key = _ECKEYS.get(alg)
        if key is None:
            key = _ECKEYS[alg] = asyncssh.generate_private_key(alg)
        if pkcs8:
            outer = A.der_decode(key.export_private_key('pkcs8-der'))
            inner = A.der_decode(outer[2])
            inner = tuple(x for x in inner if not (isinstance(x, A.TaggedDERObject) and x.tag == 1))
            data = A.der_encode((outer[0], outer[1], A.der_encode(inner)))
            label = b'PRIVATE KEY'
        else:
            inner = A.der_decode(key.export_private_key('pkcs1-der'))
            inner = tuple(x for x in inner if not (isinstance(x, A.TaggedDERObject) and x.tag == 1))
            data = A.der_encode(inner)
            label = b'EC PRIVATE KEY'
        if pem:
            import binascii
            b64 = binascii.b2a_base64(data, newline=False)
            data = b'-----BEGIN ' + label + b'-----\n' + b'\n'.join(b64[i:i + 64] for i in range(0, len(b64), 64)) + \
                b'\n-----END ' + label + b'-----\n'
        back = asyncssh.import_private_key(data)
        if back.public_data != key.public_data:
            return False
        pub = asyncssh.import_public_key(back.export_public_key('openssh'))
        return pub.public_data == key.public_data and back.export_private_key('openssh') is not None


def _ref_p12(hash_name, passphrase, salt, count, n, idx):
    """RFC 7292 appendix B.2, written out independently"""
    h = lambda d: hashlib.new(hash_name, d).digest()
    v = hashlib.new(hash_name).block_size
    u = hashlib.new(hash_name).digest_size

    def fill(data):
        if not data:
            return b''
        k = -(-len(data) // v)
        return (data * (k * v // len(data) + 1))[:k * v]

    D = bytes([idx]) * v
    P = fill(passphrase.encode('utf-16be') + b'\0\0')
    S = fill(salt)
    I = S + P
    out = b''
    while len(out) < n:
        Ai = D + I
        for _ in range(count):
            Ai = h(Ai)
        out += Ai
        Bb = fill(Ai)[:v] if len(Ai) >= v else (Ai * (v // len(Ai) + 1))[:v]
        Bn = int.from_bytes(Bb, 'big') + 1
        I2 = b''
        for j in range(0, len(I), v):
            I2 += ((int.from_bytes(I[j:j + v], 'big') + Bn) % (1 << (8 * v))).to_bytes(v, 'big')
        I = I2
    return out[:n]


def p12_kdf(n: int, idx: int, count: int, sl: int, pwi: int) -> bool:
    """PKCS#12 key derivation == RFC 7292 appendix B for every output length
    up to three SHA-1 blocks (keys longer than one digest exercise the I-block
    update), purposes 1..3, 1..3 iterations, salts 1..9 bytes."""
    n = conc(n, 1, 45)
    idx = conc(idx, 1, 3)
    count = conc(count, 1, 3)
    sl = conc(sl, 1, 9)
    pw = pick(['pw', '', 'longer passphrase €'], pwi)
    with notrace():
        salt = bytes(range(1, sl + 1))
        got = PBE._pbkdf_p12(hashlib.sha1, pw, salt, count, n, idx)
        want = _ref_p12('sha1', pw, salt, count, n, idx)
    return got == want


INTS = [0, 1, -1, 127, 128, -128, -129, 255, 256, 32767, 32768, -32768, -32769, 2 ** 31, -2 ** 31 - 1, 2 ** 64 + 5]


def _val(sel, i, j):
    kinds = ['int', 'bytes', 'null', 'bool', 'str', 'tuple', 'bits', 'oid', 'set']
    k = kinds[sel % len(kinds)]
    if k == 'int':
        return pick(INTS, i)
    if k == 'bytes':
        return bytes(range(j % 5))
    if k == 'null':
        return None
    if k == 'bool':
        return i % 2 == 0
    if k == 'str':
        return pick(['', 'a', 'h\xe9', '€\U0001f600'], i % 4)
    if k == 'tuple':
        return (pick(INTS, i), bytes(range(j % 3)), (True, None))
    if k == 'bits':
        return A.BitString(bytes(range(1, 1 + j % 3)) , 0) if j % 2 else A.BitString('1011' + '0' * (i % 5))
    if k == 'oid':
        return A.ObjectIdentifier(pick(['1.2.840.113549.1.1.1', '2.5.4.3', '0.0', '2.999.1', '1.3.6.1.4.1.11591.15.1'], i % 5))
    return frozenset([pick(INTS, i), pick(INTS, (i + 3) % len(INTS))])


def der_roundtrip(sel: int, i: int, j: int) -> bool:
    """der_decode(der_encode(v)) == v for integers at every byte-length
    boundary, byte strings, NULL, booleans, UTF-8 strings, nested sequences,
    bit strings, object identifiers and sets; re-encoding the decoded value
    gives the same bytes (canonical)."""
    i = conc(i, 0, 15)
    j = conc(j, 0, 5)
    sel = conc(sel, 0, 8)
    with notrace():
        v = _val(sel, i, j)
        enc = A.der_encode(v)
        dec = A.der_decode(enc)
        again = A.der_encode(dec)
    if isinstance(v, list):
        v = tuple(v)
    return dec == v and again == enc


def ssh_blob_layout(kind: int) -> bool:
    """SSH public key blobs follow RFC 4253 / 5656 / 8709 layouts (reference
    parse written in the harness) and decode back to the same key."""
    from asyncssh.packet import SSHPacket
    k = pick(KINDS, kind)
    with notrace():
        key = _key(k)
        blob = key.public_data
        p = SSHPacket(blob)
        alg = p.get_string()
        if k == 'rsa':
            e, n = p.get_mpint(), p.get_mpint()
            ok = alg == b'ssh-rsa' and e == 65537 and n.bit_length() == 1024
        elif k == 'ecdsa':
            curve, point = p.get_string(), p.get_string()
            ok = alg == b'ecdsa-sha2-nistp256' and curve == b'nistp256' and len(point) == 65 and point[0] == 4
        else:
            pub = p.get_string()
            ok = alg == b'ssh-ed25519' and len(pub) == 32
        try:
            p.check_end()
        except Exception:
            ok = False
        ok = ok and PK.decode_ssh_public_key(blob) == key.convert_to_public()
    return ok


OBLIGATIONS = [
    Ob('public_roundtrip', public_roundtrip, sym=dict(fmt=R(0, 5), ci=R(0, 7)), shards=dict(kind=[0, 1, 2]), timeout=200,
       functions=[PK.SSHKey.export_public_key, PK.import_public_key, PK._parse_rfc4716],
       bounds='3 key types x public formats (openssh, rfc4716, pkcs8-der/pem, pkcs1-der/pem for RSA) x 8 comments (None, spaces, quotes at the ends, a lone quote, UTF-8, backslash)'),
    Ob('private_roundtrip', private_roundtrip, sym=dict(pi=R(0, len(PRIV) - 1), pwi=R(0, 2), ci=R(0, 7)),
       shards=dict(kind=[0, 1, 2], ci=[1]), thorough_shards=dict(kind=[0, 1, 2], ci=[0, 1, 3, 5]), timeout=300, thorough_timeout=900,
       functions=[PK.SSHKey.export_private_key, PK.import_private_key, PBE.pkcs1_encrypt, PBE.pkcs8_encrypt, PBE.pkcs1_decrypt, PBE.pkcs8_decrypt],
       bounds='3 key types x %d export paths (unencrypted openssh/pkcs1/pkcs8 der+pem; pkcs1-pem x 5 ciphers; pkcs8 PBES1/PKCS#12 x 6 schemes; PBES2 x 6 ciphers x 3 PRFs) x 3 passphrases; wrong and missing passphrase rejected' % len(PRIV)),
    Ob('pbes2_interop', pbes2_interop, sym=dict(ci=R(0, 2), hi=R(0, 2), der=B, pwi=R(0, 2)), shards=dict(kind=[0, 1, 2]), timeout=300,
       functions=[PBE.pkcs8_encrypt, PBE.pkcs8_decrypt, PBE._pbes2_pbkdf2, PK.SSHKey.export_private_key, PK.import_private_key],
       bounds='3 key types x {aes128-cbc, aes256-cbc, des3-cbc} x PRF {sha1 (encoded by omission), sha256, sha512} x DER/PEM x 3 passphrases, decoded by PyCA cryptography; PyCA BestAvailableEncryption output imported back'),
    Ob('pbes1_interop', pbes1_interop, sym=dict(si=R(0, 2), der=B, pwi=R(0, 2)), shards=dict(kind=[0, 1, 2]), timeout=300,
       functions=[PBE.pkcs8_encrypt, PBE._pbkdf_p12, PBE._pbkdf1, PK.SSHKey.export_private_key],
       bounds='3 key types x {PKCS#12 SHA1-3DES, PKCS#12 SHA1-RC4-128, PBES1 MD5-DES} x DER/PEM x 3 passphrases (incl. non-ASCII), decoded by PyCA cryptography'),
    Ob('ec_no_public', ec_no_public, sym=dict(ci=R(0, 2), pkcs8=B, pem=B), timeout=150,
       functions=['asyncssh.ecdsa._ECKey.decode_pkcs1_private', 'asyncssh.ecdsa._ECKey.decode_pkcs8_private', 'asyncssh.crypto.ec.ECDSAPrivateKey.construct'],
       bounds='3 NIST curves x SEC1 (PKCS#1-style) / PKCS#8 x DER / PEM, private key re-encoded without the optional public point'),
    Ob('p12_kdf', p12_kdf, sym=dict(n=R(1, 45), idx=R(1, 3), count=R(1, 3), sl=R(1, 9), pwi=R(0, 2)),
       shards=dict(idx=[1, 2, 3], count=[1, 2], sl=[1, 8], pwi=[0, 1, 2]), timeout=200,
       functions=[PBE._pbkdf_p12], bounds='output length 1..45, purpose id 1..3, 1..2 iterations, salt length 1 or 8, 3 passphrases (incl. empty, non-ASCII)'),
    Ob('der_roundtrip', der_roundtrip, sym=dict(sel=R(0, 8), i=R(0, 15), j=R(0, 5)), shards=dict(sel=list(range(9))), timeout=150,
       functions=[A.der_encode, A.der_decode, A.BitString.encode, A.ObjectIdentifier.encode],
       bounds='9 value kinds; 16 boundary integers from -2^31-1 to 2^64+5; byte strings 0..4; nested tuples; 5 OIDs; bit strings with/without unused bits'),
    Ob('ssh_blob_layout', ssh_blob_layout, sym=dict(kind=R(0, 2)), timeout=120,
       functions=[PK.SSHKey.public_data.fget if hasattr(PK.SSHKey.public_data, 'fget') else PK.decode_ssh_public_key, PK.decode_ssh_public_key],
       bounds='RSA / ECDSA nistp256 / Ed25519 public blobs against the RFC 4253 / 5656 / 8709 layouts'),
]

MANIFEST = dict(
    engines='A',
    technique='solver-enumerated export/import paths (CrossHair/z3 chooses format, cipher, hash, PBE version, passphrase, comment; each path runs the real code natively) plus independent references for the PKCS#12 KDF and DER canonical forms',
    text='Codec-layer verification: for RSA, ECDSA and Ed25519 keys every public export format re-imports to an equal key with the same comment '
         '(comments with quotes, blanks, UTF-8, backslash); every private export path available in this sandbox (unencrypted OpenSSH/PKCS#1/PKCS#8, '
         'PKCS#1-PEM with 5 ciphers, PKCS#8 PBES1 and PKCS#12 schemes, PBES2 with 6 ciphers x 3 PRFs) re-imports to an equal key and rejects a wrong or '
         'missing passphrase; the PKCS#12 key derivation equals an independently written RFC 7292 appendix B for all output lengths up to three digest '
         'blocks; DER values round-trip canonically at every integer byte-length boundary; SSH public blobs have the RFC layouts; PBES2 and PBES1/PKCS#12 encrypted PKCS#8 exports are decoded by an independent implementation (PyCA cryptography) and its output is imported back.',
    note='The solver only ranges over the path choices: key material and ciphers are C code (PyCA) executed concretely. Encrypted OpenSSH-format private '
         'keys (bcrypt missing) and agreement with ssh-keygen / PyCA loaders / OpenSSL are NOT checked - the interoperability clause of C15 is '
         'covered only through the two independent references named above. Trusted: PyCA, hashlib, CrossHair, z3, the references in props/C15.py.')
